// Package solve runs SMT queries on a portfolio of solvers.
package solve

import (
	"bytes"
	"context"
	"os"
	"os/exec"
	"strconv"
	"strings"
	"sync"
	"time"
)

type Result struct {
	Status string // unsat, sat, unknown, timeout, error
	Solver string
	Time   float64
	Output string // raw output of the deciding (or last) solver
	Model  string
	All    map[string]string // solver -> status
}

type solverDef struct {
	name string
	args func(file string, timeoutMs int, seed int) []string
	bin  string
	seed int // filled in per run
}

// Solver seeds.  A proof does not depend on the solver's random seed, but whether z3 finds it
// within the budget does: quantified obligations (forall-exists loop invariants) were decided
// in 0.2-3 s under some seeds and not at all under others.  The baseline strategies therefore
// run with FIXED seeds, so that the unchanged tree is decided the same way on every run whatever
// VERIF_SEED is; VERIF_SEED only moves the additional "seedN" variant and the restart seeds of
// the retry stage, which add diversity and can only turn an undecided obligation into a decided one.
var solvers = []solverDef{
	{"z3-new", func(f string, t, seed int) []string {
		return []string{"-T:" + itoa((t+999)/1000), "smt.random_seed=" + itoa(seed), f}
	}, "z3-new", 0},
	// z3 5.1.0 under other quantifier/arithmetic strategies: quantified obligations are decided in
	// well under a second by one configuration and not at all by another, so they are raced.
	{"z3-new/lra2-nombqi", func(f string, t, seed int) []string {
		return []string{"-T:" + itoa((t+999)/1000), "smt.random_seed=" + itoa(seed), "smt.arith.solver=2", "smt.mbqi=false", f}
	}, "z3-new", 0},
	{"z3-new/ematch", func(f string, t, seed int) []string {
		return []string{"-T:" + itoa((t+999)/1000), "smt.random_seed=" + itoa(seed), "smt.mbqi=false", "smt.qi.eager_threshold=100", f}
	}, "z3-new", 0},
	// auto_config=false keeps z3 from picking a (here: slow) tactic from the formula's shape;
	// several heap-frame obligations over append are decided in 0.5 s this way and in > 30 s otherwise
	{"z3-new/noauto", func(f string, t, seed int) []string {
		return []string{"-T:" + itoa((t+999)/1000), "smt.random_seed=" + itoa(seed), "smt.auto_config=false", f}
	}, "z3-new", 0},
	{"z3-new/seedN", func(f string, t, seed int) []string {
		return []string{"-T:" + itoa((t+999)/1000), "smt.random_seed=" + itoa(seed), f}
	}, "z3-new", 0},
	// the same two strategies under a second FIXED seed: quantified (forall-exists) invariants are
	// decided in under a second by one seed and not within the budget by another; which seed is
	// the lucky one changes whenever the generated query text changes, so two are raced
	{"z3-new/ematch-s1", func(f string, t, seed int) []string {
		return []string{"-T:" + itoa((t+999)/1000), "smt.random_seed=1", "smt.mbqi=false", "smt.qi.eager_threshold=100", f}
	}, "z3-new", 0},
	{"z3-new/s2", func(f string, t, seed int) []string {
		return []string{"-T:" + itoa((t+999)/1000), "smt.random_seed=2", f}
	}, "z3-new", 0},
	{"cvc5", func(f string, t, seed int) []string {
		return []string{"--tlimit=" + itoa(t), "--seed=" + itoa(seed), "--produce-models", f}
	}, "cvc5", 0},
	{"z3", func(f string, t, seed int) []string {
		return []string{"-T:" + itoa((t+999)/1000), "smt.random_seed=" + itoa(seed), f}
	}, "z3", 0},
}

// seedFor: the seed a strategy runs with in the first stage (restart 0) and in the retry stage
// (restart r >= 1).  Stage 0 is fixed except for the seedN variant.
func seedFor(name string, verifSeed, restart int) int {
	if restart == 0 {
		if name == "z3-new/seedN" {
			return verifSeed + 7
		}
		return 0
	}
	// restarts: fixed seeds 1, 2, 3, ... for the baseline strategies, VERIF_SEED-shifted for seedN
	if name == "z3-new/seedN" {
		return verifSeed + 7 + 10*restart
	}
	return restart
}

func itoa(i int) string { return strconv.Itoa(i) }

// Available reports which solver binaries exist.
func Available() []string {
	var out []string
	for _, s := range solvers {
		if _, err := exec.LookPath(s.bin); err == nil {
			out = append(out, s.name)
		}
	}
	return out
}

func classify(out string) string {
	if strings.TrimSpace(out) == "" {
		return "timeout" // killed by the CPU-time limit before answering
	}
	// a solver that rejects part of the query has not decided it (z3 keeps going after an
	// erroneous command and would answer for the remaining ones)
	for _, line := range strings.Split(out, "\n") {
		if strings.HasPrefix(strings.TrimSpace(line), "(error") {
			return "error"
		}
	}
	for _, line := range strings.Split(out, "\n") {
		line = strings.TrimSpace(line)
		switch line {
		case "unsat", "sat", "unknown", "timeout":
			return line
		}
		if line != "" && !strings.HasPrefix(line, "(") && !strings.HasPrefix(line, ";") && !strings.HasPrefix(line, "WARNING") {
			if strings.Contains(line, "error") {
				return "error"
			}
		}
	}
	if strings.Contains(out, "error") {
		return "error"
	}
	return "unknown"
}

// Run decides the query in file.  Solvers are staged: the first starts at
// once, the others after stagger unless an answer is already there.
// wantModel appends (get-model) handling: the file is expected to end with
// (check-sat); a model query is re-run on the deciding solver when sat.
func Run(file string, timeout time.Duration, seed int, only string, all bool) Result {
	return RunRestarts(file, timeout, seed, only, all, nil)
}

// RunRestarts is Run with an explicit list of restart indices (nil: the first stage only, restart 0).
// With several restarts every z3-new strategy is started once per restart index, each with the
// seed seedFor gives it; cvc5 and the old z3 are started once.
func RunRestarts(file string, timeout time.Duration, seed int, only string, all bool, restarts []int) Result {
	start := time.Now()
	if len(restarts) == 0 {
		restarts = []int{0}
	}
	// The budget is CPU time per solver process (ulimit -t), so that a loaded machine does not
	// turn provable obligations into timeouts; wall-clock limits are only a generous backstop.
	const wallFactor = 8
	ctx, cancel := context.WithTimeout(context.Background(), wallFactor*timeout+5*time.Second)
	defer cancel()
	cpuSec := int((timeout + time.Second - 1) / time.Second)
	if cpuSec < 1 {
		cpuSec = 1
	}
	type ans struct {
		solver, status, out string
		dur                 float64
	}
	ch := make(chan ans, len(solvers))
	var wg sync.WaitGroup
	launch := func(s solverDef) {
		wg.Add(1)
		go func() {
			defer wg.Done()
			t0 := time.Now()
			args := s.args(file, wallFactor*int(timeout/time.Millisecond), s.seed)
			sh := "ulimit -t " + itoa(cpuSec) + "; exec " + s.bin
			for _, a := range args {
				sh += " '" + strings.ReplaceAll(a, "'", "'\\''") + "'"
			}
			cmd := exec.CommandContext(ctx, "/bin/sh", "-c", sh)
			var buf bytes.Buffer
			cmd.Stdout = &buf
			cmd.Stderr = &buf
			cmd.Run()
			out := buf.String()
			st := classify(out)
			if ctx.Err() != nil && st != "sat" && st != "unsat" {
				st = "timeout"
			}
			ch <- ans{s.name, st, out, time.Since(t0).Seconds()}
		}()
	}
	var use []solverDef
	for _, s := range solvers {
		if only != "" && s.name != only {
			continue
		}
		if _, err := exec.LookPath(s.bin); err != nil {
			continue
		}
		for i, r := range restarts {
			if i > 0 && s.bin != "z3-new" {
				continue
			}
			u := s
			u.seed = seedFor(s.name, seed, r)
			if len(restarts) > 1 && s.bin == "z3-new" {
				u.name = s.name + "@r" + itoa(r)
			}
			use = append(use, u)
		}
	}
	res := Result{Status: "unknown", All: map[string]string{}}
	if len(use) == 0 {
		res.Status = "error"
		res.Output = "no solver available"
		return res
	}
	launched := 0
	pending := 0
	launch(use[0])
	launched, pending = 1, 1
	stagger := time.NewTimer(400 * time.Millisecond)
	if all {
		stagger.Reset(0)
	}
	defer stagger.Stop()
	for pending > 0 {
		select {
		case <-stagger.C:
			// second wave: three more strategies; the rest follows after another two seconds
			wave := 3
			if all || launched > 1 {
				wave = len(use)
			}
			for launched < len(use) && wave > 0 {
				launch(use[launched])
				launched++
				pending++
				wave--
			}
			if launched < len(use) {
				stagger.Reset(2 * time.Second)
			}
		case a := <-ch:
			pending--
			res.All[a.solver] = a.status
			if a.status == "sat" || a.status == "unsat" {
				if res.Status != "sat" && res.Status != "unsat" {
					res.Status, res.Solver, res.Output, res.Time = a.status, a.solver, a.out, a.dur
				}
				// first decision wins (`all` only means: start every strategy at once)
				cancel()
				go func() { wg.Wait() }()
				res.Time = time.Since(start).Seconds()
				return res
			} else {
				if res.Solver == "" {
					res.Output = a.out
					if a.status == "timeout" || res.Status == "unknown" {
						res.Status = a.status
					}
				}
				// first solver failed quickly: start the others now
				if launched < len(use) {
					for launched < len(use) {
						launch(use[launched])
						launched++
						pending++
					}
				}
			}
		}
	}
	res.Time = time.Since(start).Seconds()
	return res
}

// Model re-runs the query with (get-model) on one solver.
func Model(file string, solver string, timeout time.Duration) string {
	data, err := os.ReadFile(file)
	if err != nil {
		return ""
	}
	mf := file + ".model.smt2"
	txt := strings.Replace(string(data), "(set-logic ALL)", "(set-option :produce-models true)\n(set-logic ALL)", 1) + "(get-model)\n"
	os.WriteFile(mf, []byte(txt), 0o644)
	defer os.Remove(mf)
	if i := strings.Index(solver, "@r"); i >= 0 {
		solver = solver[:i] // restart variant of a strategy: the model query runs on the strategy itself
	}
	for _, s := range solvers {
		if s.name != solver {
			continue
		}
		ctx, cancel := context.WithTimeout(context.Background(), timeout+2*time.Second)
		defer cancel()
		cmd := exec.CommandContext(ctx, s.bin, s.args(mf, int(timeout/time.Millisecond), 0)...)
		var buf bytes.Buffer
		cmd.Stdout = &buf
		cmd.Stderr = &buf
		cmd.Run()
		return buf.String()
	}
	return ""
}
