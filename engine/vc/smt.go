// Package vc generates verification conditions from go/ssa functions and
// gocv contracts, as SMT-LIB 2 text.
package vc

import (
	"fmt"
	"math/big"
	"strings"
)

// Term is an SMT-LIB term with its sort.
type Term struct {
	S    string
	Sort string
}

const (
	SInt   = "Int"
	SBool  = "Bool"
	SPtr   = "Ptr"
	SSlice = "Slice"
	SStr   = "Str"
	SIface = "Iface"
	SReal  = "Flt"
	SFn    = "Fn"
)

func (t Term) String() string { return t.S }

func app(op string, args ...Term) string {
	var sb strings.Builder
	sb.WriteString("(")
	sb.WriteString(op)
	for _, a := range args {
		sb.WriteString(" ")
		sb.WriteString(a.S)
	}
	sb.WriteString(")")
	return sb.String()
}

func IntLit(v int64) Term { return BigLit(big.NewInt(v)) }
func BigLit(v *big.Int) Term {
	if v.Sign() < 0 {
		return Term{"(- " + new(big.Int).Neg(v).String() + ")", SInt}
	}
	return Term{v.String(), SInt}
}
func BoolLit(b bool) Term {
	if b {
		return Term{"true", SBool}
	}
	return Term{"false", SBool}
}

var True = BoolLit(true)
var False = BoolLit(false)
var NilPtr = Term{"nilptr", SPtr}
var NilSlice = Term{"nilslice", SSlice}
var NilIface = Term{"niliface", SIface}

func isLit(t Term) (*big.Int, bool) {
	s := t.S
	neg := false
	if strings.HasPrefix(s, "(- ") && strings.HasSuffix(s, ")") {
		neg = true
		s = s[3 : len(s)-1]
	}
	if s == "" || s[0] < '0' || s[0] > '9' {
		return nil, false
	}
	v, ok := new(big.Int).SetString(s, 10)
	if !ok {
		return nil, false
	}
	if neg {
		v.Neg(v)
	}
	return v, true
}

func Add(a, b Term) Term {
	if x, ok := isLit(a); ok {
		if y, ok := isLit(b); ok {
			return BigLit(new(big.Int).Add(x, y))
		}
		if x.Sign() == 0 {
			return b
		}
	}
	if y, ok := isLit(b); ok && y.Sign() == 0 {
		return a
	}
	return Term{app("+", a, b), SInt}
}
func Sub(a, b Term) Term {
	if x, ok := isLit(a); ok {
		if y, ok := isLit(b); ok {
			return BigLit(new(big.Int).Sub(x, y))
		}
	}
	if y, ok := isLit(b); ok && y.Sign() == 0 {
		return a
	}
	return Term{app("-", a, b), SInt}
}
func Mul(a, b Term) Term {
	if x, ok := isLit(a); ok {
		if y, ok := isLit(b); ok {
			return BigLit(new(big.Int).Mul(x, y))
		}
		if x.Cmp(big.NewInt(1)) == 0 {
			return b
		}
		if x.Sign() == 0 {
			return IntLit(0)
		}
	}
	if y, ok := isLit(b); ok {
		if y.Cmp(big.NewInt(1)) == 0 {
			return a
		}
		if y.Sign() == 0 {
			return IntLit(0)
		}
	}
	return Term{app("*", a, b), SInt}
}
func Neg(a Term) Term {
	if x, ok := isLit(a); ok {
		return BigLit(new(big.Int).Neg(x))
	}
	return Term{app("-", a), SInt}
}
func Le(a, b Term) Term { return Term{app("<=", a, b), SBool} }
func Lt(a, b Term) Term { return Term{app("<", a, b), SBool} }
func Ge(a, b Term) Term { return Term{app(">=", a, b), SBool} }
func Gt(a, b Term) Term { return Term{app(">", a, b), SBool} }
func Eq(a, b Term) Term {
	if a.S == b.S {
		return True
	}
	return Term{app("=", a, b), SBool}
}
func Ne(a, b Term) Term { return Not(Eq(a, b)) }
func Not(a Term) Term {
	switch a.S {
	case "true":
		return False
	case "false":
		return True
	}
	if strings.HasPrefix(a.S, "(not ") {
		return Term{a.S[5 : len(a.S)-1], SBool}
	}
	return Term{app("not", a), SBool}
}
func And(ts ...Term) Term {
	var keep []Term
	for _, t := range ts {
		if t.S == "true" {
			continue
		}
		if t.S == "false" {
			return False
		}
		keep = append(keep, t)
	}
	switch len(keep) {
	case 0:
		return True
	case 1:
		return keep[0]
	}
	return Term{app("and", keep...), SBool}
}
func Or(ts ...Term) Term {
	var keep []Term
	for _, t := range ts {
		if t.S == "false" {
			continue
		}
		if t.S == "true" {
			return True
		}
		keep = append(keep, t)
	}
	switch len(keep) {
	case 0:
		return False
	case 1:
		return keep[0]
	}
	return Term{app("or", keep...), SBool}
}
func Implies(a, b Term) Term {
	if a.S == "true" {
		return b
	}
	if a.S == "false" || b.S == "true" {
		return True
	}
	return Term{app("=>", a, b), SBool}
}
func Ite(c, a, b Term) Term {
	if c.S == "true" {
		return a
	}
	if c.S == "false" {
		return b
	}
	if a.S == b.S {
		return a
	}
	return Term{app("ite", c, a, b), a.Sort}
}
func Select(a, i Term) Term {
	// sort of result: strip "(Array I " prefix
	return Term{app("select", a, i), arrayElemSort(a.Sort)}
}
func Store(a, i, v Term) Term { return Term{app("store", a, i, v), a.Sort} }

func ArraySort(idx, elem string) string { return "(Array " + idx + " " + elem + ")" }

// arrayElemSort parses "(Array I E)" and returns E.
func arrayElemSort(s string) string {
	if !strings.HasPrefix(s, "(Array ") {
		return "?"
	}
	body := s[7 : len(s)-1]
	// first sort token (may be parenthesised)
	depth := 0
	for i, c := range body {
		switch c {
		case '(':
			depth++
		case ')':
			depth--
		case ' ':
			if depth == 0 {
				return body[i+1:]
			}
		}
	}
	return "?"
}
func arrayIdxSort(s string) string {
	if !strings.HasPrefix(s, "(Array ") {
		return "?"
	}
	body := s[7 : len(s)-1]
	depth := 0
	for i, c := range body {
		switch c {
		case '(':
			depth++
		case ')':
			depth--
		case ' ':
			if depth == 0 {
				return body[:i]
			}
		}
	}
	return "?"
}

// Ptr / Slice / Iface constructors and selectors with folding.
func MkPtr(obj, off Term) Term { return Term{app("mkptr", obj, off), SPtr} }
func PObj(p Term) Term {
	if a, ok := ctorArgs(p.S, "mkptr", 2); ok {
		return Term{a[0], SInt}
	}
	if p.S == "nilptr" {
		return IntLit(0)
	}
	return Term{app("pobj", p), SInt}
}
func POff(p Term) Term {
	if a, ok := ctorArgs(p.S, "mkptr", 2); ok {
		return Term{a[1], SInt}
	}
	if p.S == "nilptr" {
		return IntLit(0)
	}
	return Term{app("poff", p), SInt}
}
func MkSlice(obj, off, ln, cp Term) Term { return Term{app("mkslice", obj, off, ln, cp), SSlice} }
func sliceSel(name string, idx int, s Term) Term {
	if a, ok := ctorArgs(s.S, "mkslice", 4); ok {
		return Term{a[idx], SInt}
	}
	if s.S == "nilslice" {
		return IntLit(0)
	}
	return Term{app(name, s), SInt}
}
func SObj(s Term) Term { return sliceSel("sobj", 0, s) }
func SOff(s Term) Term { return sliceSel("soff", 1, s) }
func SLen(s Term) Term { return sliceSel("slen", 2, s) }
func SCap(s Term) Term { return sliceSel("scap", 3, s) }
func MkIface(tag, pl Term) Term { return Term{app("mkiface", tag, pl), SIface} }
func ITag(i Term) Term {
	if a, ok := ctorArgs(i.S, "mkiface", 2); ok {
		return Term{a[0], SInt}
	}
	if i.S == "niliface" {
		return IntLit(0)
	}
	return Term{app("itag", i), SInt}
}
func IPl(i Term) Term {
	if a, ok := ctorArgs(i.S, "mkiface", 2); ok {
		return Term{a[1], SPtr}
	}
	if i.S == "niliface" {
		return NilPtr
	}
	return Term{app("ipl", i), SPtr}
}

// ctorArgs splits "(name a b c)" into its n top-level arguments.
func ctorArgs(s, name string, n int) ([]string, bool) {
	if v, ok := knownCtor[s]; ok {
		s = v // a defined name whose definition is a constructor application: fold selectors through it
	}
	pre := "(" + name + " "
	if !strings.HasPrefix(s, pre) || !strings.HasSuffix(s, ")") {
		return nil, false
	}
	body := s[len(pre) : len(s)-1]
	var out []string
	depth := 0
	start := 0
	for i := 0; i < len(body); i++ {
		switch body[i] {
		case '(':
			depth++
		case ')':
			depth--
			if depth < 0 {
				return nil, false
			}
		case ' ':
			if depth == 0 {
				out = append(out, body[start:i])
				start = i + 1
			}
		}
	}
	out = append(out, body[start:])
	if len(out) != n || depth != 0 {
		return nil, false
	}
	return out, true
}

// Prelude is shared by every query.
const Prelude = `(set-logic ALL)
(declare-datatypes ((Ptr 0)) (((mkptr (pobj Int) (poff Int)))))
(declare-datatypes ((Slice 0)) (((mkslice (sobj Int) (soff Int) (slen Int) (scap Int)))))
(declare-datatypes ((Iface 0)) (((mkiface (itag Int) (ipl Ptr)))))
(define-fun nilptr () Ptr (mkptr 0 0))
(define-fun nilslice () Slice (mkslice 0 0 0 0))
(define-fun niliface () Iface (mkiface 0 nilptr))
(declare-sort Str 0)
(declare-sort Flt 0)
(define-sort Fn () Int)
(declare-fun slen_ (Str) Int)
(declare-fun sbyte (Str Int) Int)
(declare-fun ssub (Str Int Int) Str)
(declare-fun sconcat (Str Str) Str)
(declare-fun strlt (Str Str) Bool)
(declare-fun bytes2str (Int) Str)
(declare-const emptystr Str)
(assert (= (slen_ emptystr) 0))
(declare-const fzero Flt)
(declare-fun tagIsPtr (Int) Bool)
(define-fun wfptr ((p Ptr) (al Int)) Bool (and (<= 0 (pobj p)) (<= (pobj p) al) (=> (= (pobj p) 0) (= (poff p) 0)) (<= 0 (poff p))))
(define-fun wfslice ((s Slice) (al Int)) Bool (and (<= 0 (sobj s)) (<= (sobj s) al) (<= 0 (soff s)) (<= 0 (slen s)) (<= (slen s) (scap s)) (<= (scap s) 1099511627776) (=> (= (sobj s) 0) (and (= (scap s) 0) (= (soff s) 0)))))
(define-fun wfiface ((i Iface) (al Int)) Bool (and (<= 0 (itag i)) (wfptr (ipl i) al) (=> (= (itag i) 0) (= (ipl i) nilptr))))
(define-fun tdiv ((a Int) (b Int)) Int (ite (>= a 0) (ite (> b 0) (div a b) (- (div a (- b)))) (ite (> b 0) (- (div (- a) b)) (div (- a) (- b)))))
(define-fun tmod ((a Int) (b Int)) Int (- a (* b (tdiv a b))))
(define-fun imin ((a Int) (b Int)) Int (ite (<= a b) a b))
(define-fun imax ((a Int) (b Int)) Int (ite (>= a b) a b))
(define-fun pow2 ((k Int)) Int (ite (<= k 0) 1 (ite (= k 1) 2 (ite (= k 2) 4 (ite (= k 3) 8 (ite (= k 4) 16 (ite (= k 5) 32 (ite (= k 6) 64 (ite (= k 7) 128 (ite (= k 8) 256 (ite (= k 9) 512 (ite (= k 10) 1024 (ite (= k 11) 2048 (ite (= k 12) 4096 (ite (= k 13) 8192 (ite (= k 14) 16384 (ite (= k 15) 32768 (ite (= k 16) 65536 (ite (= k 17) 131072 (ite (= k 18) 262144 (ite (= k 19) 524288 (ite (= k 20) 1048576 (ite (= k 21) 2097152 (ite (= k 22) 4194304 (ite (= k 23) 8388608 (ite (= k 24) 16777216 (ite (= k 25) 33554432 (ite (= k 26) 67108864 (ite (= k 27) 134217728 (ite (= k 28) 268435456 (ite (= k 29) 536870912 (ite (= k 30) 1073741824 (ite (= k 31) 2147483648 (ite (= k 32) 4294967296 (ite (= k 33) 8589934592 (ite (= k 34) 17179869184 (ite (= k 35) 34359738368 (ite (= k 36) 68719476736 (ite (= k 37) 137438953472 (ite (= k 38) 274877906944 (ite (= k 39) 549755813888 (ite (= k 40) 1099511627776 (ite (= k 41) 2199023255552 (ite (= k 42) 4398046511104 (ite (= k 43) 8796093022208 (ite (= k 44) 17592186044416 (ite (= k 45) 35184372088832 (ite (= k 46) 70368744177664 (ite (= k 47) 140737488355328 (ite (= k 48) 281474976710656 (ite (= k 49) 562949953421312 (ite (= k 50) 1125899906842624 (ite (= k 51) 2251799813685248 (ite (= k 52) 4503599627370496 (ite (= k 53) 9007199254740992 (ite (= k 54) 18014398509481984 (ite (= k 55) 36028797018963968 (ite (= k 56) 72057594037927936 (ite (= k 57) 144115188075855872 (ite (= k 58) 288230376151711744 (ite (= k 59) 576460752303423488 (ite (= k 60) 1152921504606846976 (ite (= k 61) 2305843009213693952 (ite (= k 62) 4611686018427387904 (ite (= k 63) 9223372036854775808 18446744073709551616)))))))))))))))))))))))))))))))))))))))))))))))))))))))))))))))))
(declare-fun bitand (Int Int) Int)
(declare-fun bitor (Int Int) Int)
(declare-fun bitxor (Int Int) Int)
`

func fmtInt(v *big.Int) string { return BigLit(v).S }

func sanitize(s string) string {
	var sb strings.Builder
	for _, c := range s {
		switch {
		case c >= 'a' && c <= 'z', c >= 'A' && c <= 'Z', c >= '0' && c <= '9', c == '_':
			sb.WriteRune(c)
		default:
			sb.WriteString("_")
		}
	}
	return sb.String()
}

var _ = fmt.Sprint
