package vc

import (
	"fmt"
	"go/types"
	"os"

	"golang.org/x/tools/go/ssa"
)

func (vc *VC) byteKind() string { return vc.tt.kind(types.Typ[types.Uint8]) }

// zeroArray is the all-zero content of a fresh object for heap kind k.  Constant
// arrays need a value literal as default (cvc5 rejects defined names), so pointer /
// slice / interface zeros are spelled with their constructors, and sorts without
// literals (strings, floats) use a declared array with a defining axiom.
func (vc *VC) zeroArray(k string) Term {
	srt := ArraySort(SInt, kindSort(k))
	lit := ""
	switch k[:1] {
	case "I", "C":
		lit = "0"
	case "B":
		lit = "false"
	case "P":
		lit = "(mkptr 0 0)"
	case "S":
		lit = "(mkslice 0 0 0 0)"
	case "F":
		lit = "(mkiface 0 (mkptr 0 0))"
	}
	if lit != "" {
		return Term{"((as const " + srt + ") " + lit + ")", srt}
	}
	name := "zeroarr_" + k[:1]
	if !vc.heapDecl[name] {
		vc.heapDecl[name] = true
		vc.cmd("(declare-const " + name + " " + srt + ")")
		vc.cmd("(assert (forall ((zi Int)) (! (= (select " + name + " zi) " + kindZero(k).S + ") :pattern ((select " + name + " zi)))))")
	}
	return Term{name, srt}
}

// knownCtor maps defined names (define-fun) to their constructor-application bodies so that
// selectors fold through definitions.  Reset per VC (VC generation is sequential).
var knownCtor = map[string]string{}

func registerCtor(name, body string) {
	if len(body) > 9 && (body[:9] == "(mkslice " || body[:7] == "(mkptr " || body[:9] == "(mkiface ") {
		knownCtor[name] = body
	}
}

// strOf is string(b) for a byte slice b in state st: a function of the bytes of b's backing
// object, its offset and its length (same bytes at the same place give the same string; equal
// content elsewhere is not identified: incomplete, not unsound).
func (vc *VC) strOf(st *State, b Term) Term {
	if !vc.heapDecl["fn:str_of"] {
		vc.heapDecl["fn:str_of"] = true
		vc.cmd("(declare-fun str_of (" + ArraySort(SInt, SInt) + " Int Int) Str)")
	}
	inner := Select(vc.heap(st, vc.byteKind()), SObj(b))
	return Term{app("str_of", inner, SOff(b), SLen(b)), SStr}
}

func (m modLoc) condOrTrue() Term {
	if m.cond.S == "" {
		return True
	}
	return m.cond
}

// isLeaf: a function with a body, no loops, no calls (other than len/cap-style builtins),
// no defers and no free variables.  Inlining it is exact and cannot recurse.
func isLeaf(fn *ssa.Function) bool {
	if len(fn.Blocks) == 0 || len(fn.Blocks) > 8 || len(fn.FreeVars) > 0 {
		return false
	}
	for _, b := range fn.Blocks {
		for _, s := range b.Succs {
			if s.Index <= b.Index {
				return false // back edge
			}
		}
		for _, in := range b.Instrs {
			switch x := in.(type) {
			case *ssa.Call:
				bi, ok := x.Common().Value.(*ssa.Builtin)
				if !ok {
					return false
				}
				switch bi.Name() {
				case "len", "cap":
				default:
					return false
				}
			case *ssa.Defer, *ssa.Go, *ssa.Panic, *ssa.Select, *ssa.Send, *ssa.MakeClosure, *ssa.RunDefers:
				return false
			}
		}
	}
	return true
}

// arrvalMin: scalar arrays at least this long are loaded as one window value (see load).
var arrvalMin = int64(1 << 30)

// arrvalDefault is the process-wide setting (GOCV_ARRWIN); a contract's `arraywindows` flag lowers the
// threshold to 16 for that function's verification conditions only.
var arrvalDefault = int64(1 << 30)

func init() {
	if v := os.Getenv("GOCV_ARRWIN"); v != "" {
		var n int64
		fmt.Sscan(v, &n)
		if n > 0 {
			arrvalMin = n
			arrvalDefault = n
		}
	}
}
