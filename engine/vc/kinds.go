package vc

import "go/types"

func (vc *VC) byteKind() string { return vc.tt.kind(types.Typ[types.Uint8]) }
