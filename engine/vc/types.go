package vc

import (
	"fmt"
	"go/types"
	"math/big"
	"strings"
)

// typeInfo caches sort/layout facts for Go types inside one VC.
type typeTab struct {
	vc       *VC
	sortOf   map[string]string // type string -> sort
	structs  map[string]*types.Struct
	declared map[string]bool
	tagOf    map[string]int
	nextTag  int
	kindSeen map[string]bool
	tyStarts []tyStartInfo
}

type tyStartInfo struct {
	fn string
	st *types.Struct
	n  int64
}

// containsByValue: does struct a hold a value of struct type b (directly, in an array, or nested)?
func containsByValue(a, b *types.Struct) bool {
	var walk func(t types.Type, depth int) bool
	walk = func(t types.Type, depth int) bool {
		if depth > 12 {
			return true // give up: assume containment (no axiom)
		}
		switch u := t.Underlying().(type) {
		case *types.Struct:
			if types.Identical(u, b) {
				return true
			}
			for i := 0; i < u.NumFields(); i++ {
				if walk(u.Field(i).Type(), depth+1) {
					return true
				}
			}
		case *types.Array:
			return walk(u.Elem(), depth+1)
		}
		return false
	}
	for i := 0; i < a.NumFields(); i++ {
		if walk(a.Field(i).Type(), 0) {
			return true
		}
	}
	return false
}

func newTypeTab(vc *VC) *typeTab {
	return &typeTab{vc: vc, sortOf: map[string]string{}, structs: map[string]*types.Struct{}, declared: map[string]bool{}, tagOf: map[string]int{}, nextTag: 1, kindSeen: map[string]bool{}}
}

func isIntKind(b *types.Basic) bool {
	return b.Info()&types.IsInteger != 0
}

// intRange returns the machine range of an integer basic type.
func intRange(b *types.Basic) (lo, hi *big.Int) {
	two := big.NewInt(2)
	pow := func(n int) *big.Int { return new(big.Int).Exp(two, big.NewInt(int64(n)), nil) }
	signed := func(n int) (*big.Int, *big.Int) {
		return new(big.Int).Neg(pow(n - 1)), new(big.Int).Sub(pow(n-1), big.NewInt(1))
	}
	unsigned := func(n int) (*big.Int, *big.Int) {
		return big.NewInt(0), new(big.Int).Sub(pow(n), big.NewInt(1))
	}
	switch b.Kind() {
	case types.Int8:
		return signed(8)
	case types.Int16:
		return signed(16)
	case types.Int32:
		return signed(32)
	case types.Int64, types.Int, types.UntypedInt, types.UntypedRune:
		return signed(64)
	case types.Uint8:
		return unsigned(8)
	case types.Uint16:
		return unsigned(16)
	case types.Uint32:
		return unsigned(32)
	case types.Uint64, types.Uint, types.Uintptr:
		return unsigned(64)
	}
	return signed(64)
}

func intBits(b *types.Basic) int {
	switch b.Kind() {
	case types.Int8, types.Uint8:
		return 8
	case types.Int16, types.Uint16:
		return 16
	case types.Int32, types.Uint32:
		return 32
	}
	return 64
}

func isUnsigned(b *types.Basic) bool { return b.Info()&types.IsUnsigned != 0 }

// sort returns the SMT sort for a Go type (declaring datatypes on demand).
func (tt *typeTab) sort(t types.Type) string {
	switch u := t.Underlying().(type) {
	case *types.Basic:
		switch {
		case u.Info()&types.IsBoolean != 0:
			return SBool
		case u.Info()&types.IsInteger != 0:
			return SInt
		case u.Info()&types.IsString != 0:
			return SStr
		case u.Info()&types.IsFloat != 0, u.Info()&types.IsComplex != 0:
			return SReal
		case u.Kind() == types.UnsafePointer:
			return SPtr
		case u.Kind() == types.UntypedNil:
			return SPtr
		}
		return SInt
	case *types.Pointer, *types.Map, *types.Chan:
		return SPtr
	case *types.Slice:
		return SSlice
	case *types.Interface:
		return SIface
	case *types.Signature:
		return SFn
	case *types.Struct:
		return tt.structSort(t, u)
	case *types.Array:
		return ArraySort(SInt, tt.sort(u.Elem()))
	case *types.Tuple:
		return "Tuple"
	}
	return SInt
}

func (tt *typeTab) structName(t types.Type) string {
	if n, ok := t.(*types.Named); ok {
		pkg := ""
		if n.Obj().Pkg() != nil {
			pkg = n.Obj().Pkg().Name()
		}
		return "St_" + sanitize(pkg+"_"+n.Obj().Name())
	}
	key := types.TypeString(t, nil)
	if s, ok := tt.sortOf[key]; ok {
		return s
	}
	s := fmt.Sprintf("St_anon%d", len(tt.sortOf))
	tt.sortOf[key] = s
	return s
}

func (tt *typeTab) structSort(t types.Type, u *types.Struct) string {
	name := tt.structName(t)
	// distinct named types with the same sanitized name: disambiguate
	key := types.TypeString(t, nil)
	if prev, ok := tt.sortOf["#"+name]; ok && prev != key {
		name = name + fmt.Sprintf("_%d", len(tt.sortOf))
	}
	tt.sortOf["#"+name] = key
	if tt.declared[name] {
		return name
	}
	tt.declared[name] = true
	tt.structs[name] = u
	// declare field sorts first
	var fs []string
	for i := 0; i < u.NumFields(); i++ {
		fs = append(fs, fmt.Sprintf("(%s_f%d %s)", name, i, tt.sort(u.Field(i).Type())))
	}
	if u.NumFields() == 0 {
		tt.vc.sortDecls = append(tt.vc.sortDecls, fmt.Sprintf("(declare-datatypes ((%s 0)) (((mk_%s))))", name, name))
	} else {
		tt.vc.sortDecls = append(tt.vc.sortDecls, fmt.Sprintf("(declare-datatypes ((%s 0)) (((mk_%s %s))))", name, name, strings.Join(fs, " ")))
	}
	return name
}

// cells is the number of scalar memory cells a value of type t occupies.
func (tt *typeTab) cells(t types.Type) int64 {
	switch u := t.Underlying().(type) {
	case *types.Struct:
		var n int64
		for i := 0; i < u.NumFields(); i++ {
			n += tt.cells(u.Field(i).Type())
		}
		if n == 0 {
			return 0
		}
		return n
	case *types.Array:
		return u.Len() * tt.cells(u.Elem())
	}
	return 1
}

func (tt *typeTab) fieldOff(u *types.Struct, idx int) int64 {
	var n int64
	for i := 0; i < idx; i++ {
		n += tt.cells(u.Field(i).Type())
	}
	return n
}

// kind is the heap a scalar type lives in.
// kind: heaps are split by the Go type of the cell (type safety: a cell is only
// ever accessed at its own type, up to identical underlying types), so a
// [][]byte header cell can never alias a []byte element cell, an int64 field
// never a byte of a byte array, and so on.
func (tt *typeTab) kind(t types.Type) string {
	qual := func(p *types.Package) string { return p.Name() }
	short := func(s string) string {
		s = sanitize(s)
		if len(s) > 40 {
			h := uint32(2166136261)
			for _, c := range []byte(s) {
				h = (h ^ uint32(c)) * 16777619
			}
			s = s[:32] + fmt.Sprintf("_%x", h)
		}
		return s
	}
	var k string
	switch u := t.Underlying().(type) {
	case *types.Basic:
		switch tt.sort(t) {
		case SInt:
			n := u.Name()
			switch u.Kind() {
			case types.Uint8:
				n = "uint8"
			case types.Int32, types.UntypedRune:
				n = "int32"
			case types.UntypedInt:
				n = "int"
			}
			k = "I_" + n
		case SBool:
			k = "B"
		case SStr:
			k = "T"
		case SReal:
			k = "R_" + u.Name()
		default:
			k = "P_unsafe"
		}
	case *types.Pointer:
		k = "P_" + short(types.TypeString(u.Elem(), qual))
	case *types.Map:
		k = "P_map_" + short(types.TypeString(u, qual))
	case *types.Chan:
		k = "P_chan_" + short(types.TypeString(u, qual))
	case *types.Slice:
		k = "S_" + short(types.TypeString(u.Elem(), qual))
	case *types.Interface:
		k = "F_" + short(types.TypeString(t, qual))
	case *types.Signature:
		k = "C"
	default:
		k = "I_other"
	}
	tt.kindSeen[k] = true
	return k
}

func kindSort(k string) string {
	if len(k) > 1 {
		k = k[:1]
	}
	switch k {
	case "I":
		return SInt
	case "B":
		return SBool
	case "P":
		return SPtr
	case "S":
		return SSlice
	case "T":
		return SStr
	case "F":
		return SIface
	case "R":
		return SReal
	case "C":
		return SFn
	}
	return SInt
}

func kindZero(k string) Term {
	full := k
	if len(k) > 1 {
		k = k[:1]
	}
	_ = full
	switch k {
	case "I", "C":
		return Term{"0", kindSort(k)}
	case "B":
		return False
	case "P":
		return NilPtr
	case "S":
		return NilSlice
	case "T":
		return Term{"emptystr", SStr}
	case "F":
		return NilIface
	case "R":
		return Term{"fzero", SReal}
	}
	return IntLit(0)
}

func heapSort(k string) string { return ArraySort(SInt, ArraySort(SInt, kindSort(k))) }

// kinds lists the heap kinds a type's cells touch.
func (tt *typeTab) kinds(t types.Type, acc map[string]bool) {
	switch u := t.Underlying().(type) {
	case *types.Struct:
		for i := 0; i < u.NumFields(); i++ {
			tt.kinds(u.Field(i).Type(), acc)
		}
	case *types.Array:
		tt.kinds(u.Elem(), acc)
	default:
		acc[tt.kind(t)] = true
	}
}

// zero value term of a type.
func (tt *typeTab) zero(t types.Type) Term {
	switch u := t.Underlying().(type) {
	case *types.Struct:
		s := tt.sort(t)
		if u.NumFields() == 0 {
			return Term{"mk_" + s, s}
		}
		var args []Term
		for i := 0; i < u.NumFields(); i++ {
			args = append(args, tt.zero(u.Field(i).Type()))
		}
		return Term{app("mk_"+s, args...), s}
	case *types.Array:
		s := tt.sort(t)
		// the default of a constant array must be a value literal for cvc5: spell the nil constructors out
		z := strings.NewReplacer("niliface", "(mkiface 0 (mkptr 0 0))", "nilslice", "(mkslice 0 0 0 0)", "nilptr", "(mkptr 0 0)").Replace(tt.zero(u.Elem()).S)
		return Term{fmt.Sprintf("((as const %s) %s)", s, z), s}
	}
	s := tt.sort(t)
	z := kindZero(tt.kind(t))
	z.Sort = s
	return z
}

// tag returns the interface type tag for a concrete dynamic type.
func (tt *typeTab) tag(t types.Type) int {
	key := types.TypeString(t, nil)
	if n, ok := tt.tagOf[key]; ok {
		return n
	}
	n := tt.nextTag
	tt.nextTag++
	tt.tagOf[key] = n
	isPtr := "false"
	if tt.sort(t) == SPtr {
		isPtr = "true"
	}
	tt.vc.cmd(fmt.Sprintf("(assert (= (tagIsPtr %d) %s)) ; tag %s", n, isPtr, key))
	return n
}

// field selector on a struct value term.
func (tt *typeTab) fieldSel(t types.Type, idx int, v Term) Term {
	u := t.Underlying().(*types.Struct)
	s := tt.sort(t)
	fs := tt.sort(u.Field(idx).Type())
	if a, ok := ctorArgs(v.S, "mk_"+s, u.NumFields()); ok {
		return Term{a[idx], fs}
	}
	return Term{fmt.Sprintf("(%s_f%d %s)", s, idx, v.S), fs}
}

func (tt *typeTab) mkStruct(t types.Type, fields []Term) Term {
	s := tt.sort(t)
	if len(fields) == 0 {
		return Term{"mk_" + s, s}
	}
	return Term{app("mk_"+s, fields...), s}
}

// wf returns the type invariant of a value of type t w.r.t. allocation frontier al.
func (tt *typeTab) wf(t types.Type, v Term, al Term) Term {
	switch u := t.Underlying().(type) {
	case *types.Basic:
		if isIntKind(u) {
			lo, hi := intRange(u)
			return And(Le(BigLit(lo), v), Le(v, BigLit(hi)))
		}
		if u.Info()&types.IsString != 0 {
			// a string's length is a non-negative int; no string outgrows the address space
			return And(Ge(Term{app("slen_", v), SInt}, IntLit(0)), Le(Term{app("slen_", v), SInt}, BigLit(pow2Big(62))))
		}
		return True
	case *types.Pointer, *types.Map, *types.Chan:
		if tt.vc.typedPtrs {
			if ts, ok := tt.tyStart(t, v); ok {
				return And(Term{app("wfptr", v, al), SBool}, ts)
			}
		}
		return Term{app("wfptr", v, al), SBool}
	case *types.Slice:
		return Term{app("wfslice", v, al), SBool}
	case *types.Interface:
		return Term{app("wfiface", v, al), SBool}
	case *types.Struct:
		var cs []Term
		for i := 0; i < u.NumFields(); i++ {
			cs = append(cs, tt.wf(u.Field(i).Type(), tt.fieldSel(t, i, v), al))
		}
		return And(cs...)
	case *types.Array:
		if u.Len() <= 64 {
			if b, ok := u.Elem().Underlying().(*types.Basic); ok && isIntKind(b) {
				lo, hi := intRange(b)
				var cs []Term
				for i := int64(0); i < u.Len(); i++ {
					e := Select(v, IntLit(i))
					cs = append(cs, Le(BigLit(lo), e), Le(e, BigLit(hi)))
				}
				return And(cs...)
			}
		}
		return True
	}
	return True
}

// tyStart: "v is nil or points at the start of an instance of its struct type".  Distinct
// instances of one struct type never overlap (a struct cannot contain itself by value, and
// unsafe is outside the model), so two starts in one object are at least cells(T) apart.
func (tt *typeTab) tyStart(t types.Type, v Term) (Term, bool) {
	pt, ok := t.Underlying().(*types.Pointer)
	if !ok {
		return Term{}, false
	}
	st, ok := pt.Elem().Underlying().(*types.Struct)
	if !ok {
		return Term{}, false
	}
	n := tt.cells(st)
	if n < 2 {
		return Term{}, false
	}
	fn := "tystart_" + tt.kind(t)
	if !tt.vc.heapDecl["fn:"+fn] {
		tt.vc.heapDecl["fn:"+fn] = true
		tt.vc.cmd("(declare-fun " + fn + " (Int Int) Bool)")
		tt.vc.cmd(fmt.Sprintf("(assert (forall ((o Int) (a Int) (b Int)) (! (=> (and (%s o a) (%s o b) (< a b)) (<= (+ a %d) b)) :pattern ((%s o a) (%s o b)))))", fn, fn, n, fn, fn))
		// instances of two struct types neither of which contains the other by value never overlap
		for _, o := range tt.tyStarts {
			if containsByValue(st, o.st) || containsByValue(o.st, st) {
				continue
			}
			tt.vc.cmd(fmt.Sprintf("(assert (forall ((o Int) (a Int) (b Int)) (! (=> (and (%s o a) (%s o b)) (or (<= (+ a %d) b) (<= (+ b %d) a))) :pattern ((%s o a) (%s o b)))))", fn, o.fn, n, o.n, fn, o.fn))
		}
		tt.tyStarts = append(tt.tyStarts, tyStartInfo{fn, st, n})
	}
	return Or(Eq(PObj(v), IntLit(0)), Term{app(fn, PObj(v), POff(v)), SBool}), true
}
