package vc

import (
	"fmt"
	"go/token"
	"go/types"
	"math/big"

	"golang.org/x/tools/go/ssa"
)

func basicOf(t types.Type) *types.Basic {
	b, _ := t.Underlying().(*types.Basic)
	return b
}

// wrapAddSub wraps x (known to be within one modulus of the range) into type b.
func wrapAddSub(b *types.Basic, x Term) Term {
	lo, hi := intRange(b)
	m := new(big.Int).Sub(hi, lo)
	m.Add(m, big.NewInt(1))
	if v, ok := isLit(x); ok {
		return BigLit(wrapBig(b, v))
	}
	return Ite(Gt(x, BigLit(hi)), Sub(x, BigLit(m)), Ite(Lt(x, BigLit(lo)), Add(x, BigLit(m)), x))
}

func wrapBig(b *types.Basic, v *big.Int) *big.Int {
	lo, hi := intRange(b)
	m := new(big.Int).Sub(hi, lo)
	m.Add(m, big.NewInt(1))
	r := new(big.Int).Sub(v, lo)
	r.Mod(r, m)
	return r.Add(r, lo)
}

// wrapMod wraps an arbitrary integer into type b.
func wrapMod(b *types.Basic, x Term) Term {
	lo, hi := intRange(b)
	if v, ok := isLit(x); ok {
		return BigLit(wrapBig(b, v))
	}
	m := new(big.Int).Sub(hi, lo)
	m.Add(m, big.NewInt(1))
	if lo.Sign() == 0 {
		return Term{app("mod", x, BigLit(m)), SInt}
	}
	return Add(Term{app("mod", Sub(x, BigLit(lo)), BigLit(m)), SInt}, BigLit(lo))
}

func (f *frame) exec(in ssa.Instruction, g Term, st *State) error {
	vc := f.vc
	tt := vc.tt
	switch x := in.(type) {
	case *ssa.Alloc:
		et := x.Type().Underlying().(*types.Pointer).Elem()
		obj := vc.allocObj(st, et)
		f.set(x, MkPtr(obj, IntLit(0)))
		if vc.typedPtrs {
			if ts, ok := tt.tyStart(x.Type(), f.vals[x]); ok {
				vc.assume(g, ts)
			}
		}
	case *ssa.FieldAddr:
		p := f.val(x.X)
		f.nilCheck(x.X, p, g, x)
		su := x.X.Type().Underlying().(*types.Pointer).Elem().Underlying().(*types.Struct)
		f.set(x, MkPtr(PObj(p), Add(POff(p), IntLit(tt.fieldOff(su, x.Field)))))
	case *ssa.Field:
		f.set(x, tt.fieldSel(x.X.Type(), x.Field, f.val(x.X)))
	case *ssa.IndexAddr:
		idx := f.val(x.Index)
		switch u := x.X.Type().Underlying().(type) {
		case *types.Slice:
			s := f.val(x.X)
			f.safety("index", g, And(Le(IntLit(0), idx), Lt(idx, SLen(s))), x)
			c := tt.cells(u.Elem())
			f.set(x, MkPtr(SObj(s), Add(SOff(s), Mul(idx, IntLit(c)))))
		case *types.Pointer:
			p := f.val(x.X)
			at := u.Elem().Underlying().(*types.Array)
			f.nilCheck(x.X, p, g, x)
			f.safety("index", g, And(Le(IntLit(0), idx), Lt(idx, IntLit(at.Len()))), x)
			c := tt.cells(at.Elem())
			f.set(x, MkPtr(PObj(p), Add(POff(p), Mul(idx, IntLit(c)))))
		default:
			return fmt.Errorf("IndexAddr on %s", x.X.Type())
		}
	case *ssa.Index:
		idx := f.val(x.Index)
		switch u := x.X.Type().Underlying().(type) {
		case *types.Array:
			f.safety("index", g, And(Le(IntLit(0), idx), Lt(idx, IntLit(u.Len()))), x)
			f.set(x, Select(f.val(x.X), idx))
		case *types.Basic: // string
			s := f.val(x.X)
			f.safety("index", g, And(Le(IntLit(0), idx), Lt(idx, Term{app("slen_", s), SInt})), x)
			f.set(x, Term{app("sbyte", s, idx), SInt})
			vc.assume(g, And(Le(IntLit(0), f.vals[x]), Le(f.vals[x], IntLit(255))))
		default:
			return fmt.Errorf("Index on %s", x.X.Type())
		}
	case *ssa.UnOp:
		return f.execUnOp(x, g, st)
	case *ssa.BinOp:
		return f.execBinOp(x, g, st)
	case *ssa.Store:
		p := f.val(x.Addr)
		f.nilCheck(x.Addr, p, g, x)
		v := f.val(x.Val)
		vc.store(st, x.Val.Type(), PObj(p), POff(p), v)
	case *ssa.Slice:
		return f.execSlice(x, g, st)
	case *ssa.MakeSlice:
		ln := f.val(x.Len)
		cp := f.val(x.Cap)
		f.safety("alloc", g, And(Le(IntLit(0), ln), Le(ln, cp), Le(cp, BigLit(new(big.Int).Lsh(big.NewInt(1), 40)))), x)
		et := x.Type().Underlying().(*types.Slice).Elem()
		obj := vc.allocObj(st, et)
		f.set(x, MkSlice(obj, IntLit(0), ln, cp))
		if f.top && f.spec != nil && f.spec.AllocBound != nil {
			// C05-style budget: a data-dependent allocation must be bounded by the contract's expression,
			// evaluated in the state just before the allocation (e.g. the bytes still unread)
			if _, isConst := x.Cap.(*ssa.Const); !isConst {
				env := f.specEnv(st, nil, nil)
				env.atBlock = x.Block()
				b, err := env.eval(f.spec.AllocBound.E)
				if err != nil {
					return fmt.Errorf("%s:%d: %v", f.spec.AllocBound.File, f.spec.AllocBound.Line, err)
				}
				vc.oblige("alloc-budget", f.loopClauseProps(f.spec.AllocBound), g, Le(Mul(cp, IntLit(tt.cells(et))), b.T), f.spec.AllocBound.Src, f.pos(x))
			}
		}
		vc.trackAlloc(f, x, g, Mul(cp, IntLit(tt.cells(et))))
	case *ssa.MakeMap:
		mt := x.Type().Underlying().(*types.Map)
		obj := vc.allocObj(st, types.Typ[types.Int])
		ks := vc.mapKeys(mt)
		hh := vc.heap(st, ks[1])
		vc.setHeap(st, ks[1], Store(hh, obj, Term{fmt.Sprintf("((as const %s) false)", ArraySort(tt.sort(mt.Key()), SBool)), ArraySort(tt.sort(mt.Key()), SBool)}))
		hl := vc.heap(st, "ML")
		vc.setHeap(st, "ML", Store(hl, obj, IntLit(0)))
		f.set(x, MkPtr(obj, IntLit(0)))
	case *ssa.MapUpdate:
		m := f.val(x.Map)
		mt := x.Map.Type().Underlying().(*types.Map)
		f.safety("mapwrite", g, Ne(PObj(m), IntLit(0)), x)
		vc.mapStore(st, mt, PObj(m), f.val(x.Key), f.val(x.Value))
	case *ssa.Lookup:
		return f.execLookup(x, g, st)
	case *ssa.MakeInterface:
		f.set(x, vc.makeIface(st, x.X.Type(), f.val(x.X)))
	case *ssa.ChangeInterface:
		f.set(x, f.val(x.X))
	case *ssa.ChangeType:
		f.set(x, f.val(x.X))
	case *ssa.TypeAssert:
		return f.execTypeAssert(x, g, st)
	case *ssa.Extract:
		tv, ok := f.tup[x.Tuple]
		if !ok || x.Index >= len(tv) {
			vc.note("extract from unmodelled tuple %s", x.Tuple.Name())
			f.setFresh(x, g, st.Alloc)
			return nil
		}
		f.set(x, tv[x.Index])
	case *ssa.Convert:
		return f.execConvert(x, g, st)
	case *ssa.MakeClosure:
		// closure value: opaque id; static calls resolve through the SSA value
		t := vc.declare(f.name(x), SFn)
		f.vals[x] = t
		vc.assume(g, Gt(t, IntLit(0)))
		if fn, ok := x.Fn.(*ssa.Function); ok {
			ci := &closureInfo{fn: fn}
			for _, b := range x.Bindings {
				ci.free = append(ci.free, f.val(b))
			}
			if vc.closures == nil {
				vc.closures = map[string]*closureInfo{}
			}
			vc.closures[t.S] = ci
		}
	case *ssa.Range:
		ri := &rangeInfo{}
		if mt, ok := x.X.Type().Underlying().(*types.Map); ok {
			ri.m = f.val(x.X)
			ri.mt = mt
			// ghost: no key has been produced yet
			ks := tt.sort(mt.Key())
			ri.gv = fmt.Sprintf("GV:%s:%d", ks, len(f.rangeOf)+1)
			vc.setHeap(st, ri.gv, Term{fmt.Sprintf("((as const %s) false)", ArraySort(ks, SBool)), ArraySort(ks, SBool)})
		} else {
			ri.isStr = true
		}
		f.rangeOf[x] = ri
	case *ssa.Next:
		return f.execNext(x, g, st)
	case *ssa.Call:
		return f.execCall(x, x.Common(), g, st)
	case *ssa.Defer:
		flag := g
		f.defers = append(f.defers, &deferInfo{x, flag})
		for _, li := range f.inLoop[x.Block()] {
			_ = li
			return fmt.Errorf("defer inside a loop is outside the verified subset")
		}
	case *ssa.Go, *ssa.Send, *ssa.Select, *ssa.MakeChan:
		return fmt.Errorf("%T is outside the verified subset (concurrency)", in)
	case *ssa.SliceToArrayPointer:
		return fmt.Errorf("SliceToArrayPointer unsupported")
	default:
		if v, ok := in.(ssa.Value); ok {
			vc.note("instruction %T not modelled: result havocked", in)
			f.setFresh(v, g, st.Alloc)
			return nil
		}
		return fmt.Errorf("unsupported instruction %T", in)
	}
	return nil
}

// trackAlloc hooks allocation-size accounting (C05); filled in by alloc budget support.
func (vc *VC) trackAlloc(f *frame, in ssa.Instruction, g Term, cells Term) {
	if f.top && f.allocBudget != nil {
		f.allocBudget(in, g, cells)
	}
}

func (vc *VC) makeIface(st *State, t types.Type, v Term) Term {
	tt := vc.tt
	if _, isIface := t.Underlying().(*types.Interface); isIface {
		return v
	}
	tag := IntLit(int64(tt.tag(t)))
	if tt.sort(t) == SPtr {
		return MkIface(tag, v)
	}
	obj := vc.allocObj(st, t)
	vc.store(st, t, obj, IntLit(0), v)
	return MkIface(tag, MkPtr(obj, IntLit(0)))
}

func (vc *VC) mapStore(st *State, mt *types.Map, obj, k, v Term) {
	ks := vc.mapKeys(mt)
	hk := vc.heap(st, ks[0])
	hh := vc.heap(st, ks[1])
	hl := vc.heap(st, "ML")
	had := Select(Select(hh, obj), k)
	vc.setHeap(st, "ML", Store(hl, obj, Ite(had, Select(hl, obj), Add(Select(hl, obj), IntLit(1)))))
	vc.setHeap(st, ks[0], Store(hk, obj, Store(Select(hk, obj), k, v)))
	vc.setHeap(st, ks[1], Store(hh, obj, Store(Select(hh, obj), k, True)))
}

func (vc *VC) mapDelete(st *State, mt *types.Map, obj, k Term) {
	ks := vc.mapKeys(mt)
	hh := vc.heap(st, ks[1])
	hl := vc.heap(st, "ML")
	had := Select(Select(hh, obj), k)
	vc.setHeap(st, "ML", Store(hl, obj, Ite(had, Sub(Select(hl, obj), IntLit(1)), Select(hl, obj))))
	vc.setHeap(st, ks[1], Store(hh, obj, Store(Select(hh, obj), k, False)))
}

func (vc *VC) mapHas(st *State, mt *types.Map, m, k Term) Term {
	ks := vc.mapKeys(mt)
	return And(Ne(PObj(m), IntLit(0)), Select(Select(vc.heap(st, ks[1]), PObj(m)), k))
}

func (vc *VC) mapGet(st *State, mt *types.Map, m, k Term) Term {
	ks := vc.mapKeys(mt)
	return Select(Select(vc.heap(st, ks[0]), PObj(m)), k)
}

func (vc *VC) mapLen(st *State, m Term) Term {
	return Ite(Eq(PObj(m), IntLit(0)), IntLit(0), Select(vc.heap(st, "ML"), PObj(m)))
}

func (f *frame) execLookup(x *ssa.Lookup, g Term, st *State) error {
	vc := f.vc
	tt := vc.tt
	switch u := x.X.Type().Underlying().(type) {
	case *types.Map:
		m := f.val(x.X)
		k := f.val(x.Index)
		has := vc.define(f.pfx+"has", vc.mapHas(st, u, m, k))
		raw := vc.mapGet(st, u, m, k)
		raw.Sort = tt.sort(u.Elem())
		v := vc.define(f.pfx+"mv", Ite(has, raw, tt.zero(u.Elem())))
		vc.assume(g, tt.wf(u.Elem(), v, st.Alloc))
		if x.CommaOk {
			f.tup[x] = []Term{v, has}
		} else {
			f.set(x, v)
		}
	case *types.Basic: // string index
		s := f.val(x.X)
		idx := f.val(x.Index)
		f.safety("index", g, And(Le(IntLit(0), idx), Lt(idx, Term{app("slen_", s), SInt})), x)
		f.set(x, Term{app("sbyte", s, idx), SInt})
		vc.assume(g, And(Le(IntLit(0), f.vals[x]), Le(f.vals[x], IntLit(255))))
	default:
		return fmt.Errorf("Lookup on %s", x.X.Type())
	}
	return nil
}

func (f *frame) execNext(x *ssa.Next, g Term, st *State) error {
	vc := f.vc
	tt := vc.tt
	ri := f.rangeOf[x.Iter]
	if ri == nil || ri.isStr {
		// string iteration: abstract (ok nondeterministic; index/rune unconstrained within type)
		vc.note("range over string abstracted in %s", f.fn.Name())
		ok := vc.declare(f.pfx+"nextok", SBool)
		k := vc.declare(f.pfx+"nextk", SInt)
		v := vc.declare(f.pfx+"nextv", SInt)
		vc.assume(g, And(Le(IntLit(0), k), Le(IntLit(0), v), Le(v, IntLit(0x10ffff))))
		if r, isR := x.Iter.(*ssa.Range); isR {
			s := f.val(r.X)
			vc.assume(g, Implies(ok, Lt(k, Term{app("slen_", s), SInt})))
		}
		f.tup[x] = []Term{ok, k, v}
		return nil
	}
	mt := ri.mt
	ok := vc.declare(f.pfx+"nextok", SBool)
	k := vc.declare(f.pfx+"nextk", tt.sort(mt.Key()))
	vc.assume(g, tt.wf(mt.Key(), k, st.Alloc))
	// a produced key is present in the map at this moment
	vc.assume(g, Implies(ok, vc.mapHas(st, mt, ri.m, k)))
	if ri.gv != "" {
		// ... and has not been produced before; when the range ends over a map the loop does not
		// modify, every key of the map has been produced (Go's range visits each entry once)
		vis := vc.heap(st, ri.gv)
		vc.assume(g, Implies(ok, Not(Select(vis, k))))
		modified := true
		if lis := f.inLoop[x.Block()]; len(lis) > 0 {
			li := lis[len(lis)-1]
			mk, all, _ := f.loopMods(li)
			modified = all || mk[vc.mapKeys(mt)[1]]
		}
		if !modified {
			vc.nfresh++
			kk := fmt.Sprintf("gvk_%d", vc.nfresh)
			kt := Term{kk, tt.sort(mt.Key())}
			vc.cmd(fmt.Sprintf("(assert (=> (and %s (not %s)) (forall ((%s %s)) (! (=> %s %s) :pattern (%s)))))", g.S, ok.S, kk, kt.Sort, vc.mapHas(st, mt, ri.m, kt).S, Select(vis, kt).S, Select(vis, kt).S))
		}
		vc.setHeap(st, ri.gv, Ite(ok, Store(vis, k, True), vis))
	}
	raw := vc.mapGet(st, mt, ri.m, k)
	raw.Sort = tt.sort(mt.Elem())
	v := vc.define(f.pfx+"nextv", raw)
	vc.assume(g, Implies(ok, tt.wf(mt.Elem(), v, st.Alloc)))
	f.tup[x] = []Term{ok, k, v}
	return nil
}

func (f *frame) execUnOp(x *ssa.UnOp, g Term, st *State) error {
	vc := f.vc
	tt := vc.tt
	switch x.Op {
	case token.MUL: // load
		if gl, ok := x.X.(*ssa.Global); ok {
			if t, ok := vc.constGlobalValue(gl); ok {
				f.set(x, t)
				return nil
			}
		}
		p := f.val(x.X)
		f.nilCheck(x.X, p, g, x)
		v := vc.load(st, x.Type(), PObj(p), POff(p))
		f.set(x, v)
		vc.assume(g, tt.wf(x.Type(), f.vals[x], st.Alloc))
	case token.SUB:
		b := basicOf(x.Type())
		if b == nil || !isIntKind(b) {
			f.setFresh(x, g, st.Alloc)
			return nil
		}
		f.set(x, wrapAddSub(b, Neg(f.val(x.X))))
	case token.NOT:
		f.set(x, Not(f.val(x.X)))
	case token.XOR:
		b := basicOf(x.Type())
		v := f.val(x.X)
		if isUnsigned(b) {
			_, hi := intRange(b)
			f.set(x, Sub(BigLit(hi), v))
		} else {
			f.set(x, Sub(Neg(v), IntLit(1)))
		}
	case token.ARROW:
		return fmt.Errorf("channel receive is outside the verified subset")
	default:
		return fmt.Errorf("unsupported unary op %s", x.Op)
	}
	return nil
}

func pow2Big(k int64) *big.Int { return new(big.Int).Lsh(big.NewInt(1), uint(k)) }

func (f *frame) execBinOp(x *ssa.BinOp, g Term, st *State) error {
	vc := f.vc
	a, b := f.val(x.X), f.val(x.Y)
	xt := x.X.Type()
	bt := basicOf(xt)
	switch x.Op {
	case token.EQL, token.NEQ:
		eq := f.equal(xt, x.Y.Type(), a, b, x.X, x.Y)
		if x.Op == token.NEQ {
			eq = Not(eq)
		}
		f.set(x, eq)
		return nil
	case token.LSS, token.LEQ, token.GTR, token.GEQ:
		if bt != nil && bt.Info()&types.IsString != 0 {
			var t Term
			lt := func(p, q Term) Term { return Term{app("strlt", p, q), SBool} }
			switch x.Op {
			case token.LSS:
				t = lt(a, b)
			case token.GTR:
				t = lt(b, a)
			case token.LEQ:
				t = Not(lt(b, a))
			case token.GEQ:
				t = Not(lt(a, b))
			}
			f.set(x, t)
			return nil
		}
		if bt != nil && bt.Info()&types.IsFloat != 0 {
			f.setFresh(x, g, st.Alloc)
			vc.note("float comparison abstracted")
			return nil
		}
		var t Term
		switch x.Op {
		case token.LSS:
			t = Lt(a, b)
		case token.LEQ:
			t = Le(a, b)
		case token.GTR:
			t = Gt(a, b)
		case token.GEQ:
			t = Ge(a, b)
		}
		f.set(x, t)
		return nil
	}
	rt := basicOf(x.Type())
	if rt == nil {
		return fmt.Errorf("binop %s on %s", x.Op, x.Type())
	}
	if rt.Info()&types.IsString != 0 {
		if x.Op == token.ADD {
			r := Term{app("sconcat", a, b), SStr}
			f.set(x, r)
			vc.assume(g, Eq(Term{app("slen_", f.vals[x]), SInt}, Add(Term{app("slen_", a), SInt}, Term{app("slen_", b), SInt})))
			return nil
		}
		return fmt.Errorf("string op %s", x.Op)
	}
	if rt.Info()&types.IsFloat != 0 || rt.Info()&types.IsComplex != 0 {
		vc.note("float arithmetic abstracted")
		f.setFresh(x, g, st.Alloc)
		return nil
	}
	if rt.Info()&types.IsBoolean != 0 {
		switch x.Op {
		case token.AND, token.LAND:
			f.set(x, And(a, b))
		case token.OR, token.LOR:
			f.set(x, Or(a, b))
		default:
			return fmt.Errorf("bool op %s", x.Op)
		}
		return nil
	}
	lo, hi := intRange(rt)
	_ = lo
	switch x.Op {
	case token.ADD:
		f.set(x, wrapAddSub(rt, Add(a, b)))
	case token.SUB:
		f.set(x, wrapAddSub(rt, Sub(a, b)))
	case token.MUL:
		f.set(x, wrapMod(rt, Mul(a, b)))
	case token.QUO:
		f.safety("div", g, Ne(b, IntLit(0)), x)
		if isUnsigned(rt) {
			f.set(x, Term{app("div", a, b), SInt})
		} else {
			f.set(x, wrapAddSub(rt, Term{app("tdiv", a, b), SInt}))
		}
	case token.REM:
		f.safety("div", g, Ne(b, IntLit(0)), x)
		if isUnsigned(rt) {
			f.set(x, Term{app("mod", a, b), SInt})
		} else {
			f.set(x, Term{app("tmod", a, b), SInt})
		}
	case token.SHL:
		if k, ok := isLit(b); ok {
			if k.Cmp(big.NewInt(int64(intBits(rt)))) >= 0 {
				f.set(x, IntLit(0))
			} else {
				f.set(x, wrapMod(rt, Mul(a, BigLit(pow2Big(k.Int64())))))
			}
		} else {
			// negative shift count panics (signed count only)
			if cb := basicOf(x.Y.Type()); cb != nil && !isUnsigned(cb) {
				f.safety("shift", g, Ge(b, IntLit(0)), x)
			}
			bits := IntLit(int64(intBits(rt)))
			f.set(x, Ite(Ge(b, bits), IntLit(0), wrapMod(rt, Mul(a, Term{app("pow2", b), SInt}))))
		}
	case token.SHR:
		if k, ok := isLit(b); ok {
			if k.Cmp(big.NewInt(int64(intBits(rt)))) >= 0 {
				if isUnsigned(rt) {
					f.set(x, IntLit(0))
				} else {
					f.set(x, Ite(Lt(a, IntLit(0)), IntLit(-1), IntLit(0)))
				}
			} else {
				f.set(x, Term{app("div", a, BigLit(pow2Big(k.Int64()))), SInt})
			}
		} else {
			if cb := basicOf(x.Y.Type()); cb != nil && !isUnsigned(cb) {
				f.safety("shift", g, Ge(b, IntLit(0)), x)
			}
			bits := IntLit(int64(intBits(rt)))
			big0 := IntLit(0)
			if !isUnsigned(rt) {
				big0 = Ite(Lt(a, IntLit(0)), IntLit(-1), IntLit(0))
			}
			f.set(x, Ite(Ge(b, bits), big0, Term{app("div", a, Term{app("pow2", b), SInt}), SInt}))
		}
	case token.AND, token.OR, token.XOR, token.AND_NOT:
		f.set(x, f.bitop(x.Op, rt, a, b))
		r := f.vals[x]
		vc.assume(g, And(Le(BigLit(lo), r), Le(r, BigLit(hi))))
		if isUnsigned(rt) || true {
			nonneg := And(Ge(a, IntLit(0)), Ge(b, IntLit(0)))
			switch x.Op {
			case token.AND:
				vc.assume(g, Implies(nonneg, And(Ge(r, IntLit(0)), Le(r, a), Le(r, b))))
			case token.OR:
				vc.assume(g, Implies(nonneg, And(Ge(r, a), Ge(r, b), Le(r, Add(a, b)))))
			case token.XOR:
				vc.assume(g, Implies(nonneg, And(Ge(r, IntLit(0)), Le(r, Add(a, b)))))
			case token.AND_NOT:
				vc.assume(g, Implies(nonneg, And(Ge(r, IntLit(0)), Le(r, a))))
			}
		}
	default:
		return fmt.Errorf("unsupported binary op %s", x.Op)
	}
	return nil
}

// bitop: masks with 2^k-1 become mod; otherwise uninterpreted.
func (f *frame) bitop(op token.Token, rt *types.Basic, a, b Term) Term {
	isMask := func(t Term) (int64, bool) {
		v, ok := isLit(t)
		if !ok || v.Sign() < 0 {
			return 0, false
		}
		w := new(big.Int).Add(v, big.NewInt(1))
		if w.BitLen() > 0 && new(big.Int).And(w, v).Sign() == 0 {
			return int64(w.BitLen() - 1), true
		}
		return 0, false
	}
	if x, ok := isLit(a); ok {
		if y, ok := isLit(b); ok {
			// fold on two's complement of the type width
			m := pow2Big(int64(intBits(rt)))
			xa := new(big.Int).Mod(x, m)
			ya := new(big.Int).Mod(y, m)
			var r *big.Int
			switch op {
			case token.AND:
				r = new(big.Int).And(xa, ya)
			case token.OR:
				r = new(big.Int).Or(xa, ya)
			case token.XOR:
				r = new(big.Int).Xor(xa, ya)
			case token.AND_NOT:
				r = new(big.Int).AndNot(xa, ya)
			}
			return BigLit(wrapBig(rt, r))
		}
	}
	if op == token.AND {
		if k, ok := isMask(b); ok {
			return Term{app("mod", a, BigLit(pow2Big(k))), SInt}
		}
		if k, ok := isMask(a); ok {
			return Term{app("mod", b, BigLit(pow2Big(k))), SInt}
		}
	}
	name := map[token.Token]string{token.AND: "bitand", token.OR: "bitor", token.XOR: "bitxor"}[op]
	if op == token.AND_NOT {
		// a &^ b = a - (a & b) for non-negative operands; keep uninterpreted but related
		return Sub(a, Term{app("bitand", a, b), SInt})
	}
	return Term{app(name, a, b), SInt}
}

// equal compares two values of (possibly interface) static types.
func (f *frame) equal(xt, yt types.Type, a, b Term, xv, yv ssa.Value) Term {
	vc := f.vc
	tt := vc.tt
	srt := tt.sort(xt)
	switch srt {
	case SSlice:
		// only comparison with nil is legal
		if isNilConst(yv) {
			return Eq(SObj(a), IntLit(0))
		}
		return Eq(SObj(b), IntLit(0))
	case SIface:
		if isNilConst(yv) {
			return Eq(ITag(a), IntLit(0))
		}
		if isNilConst(xv) {
			return Eq(ITag(b), IntLit(0))
		}
		// equal representation => equal; same non-pointer tag => unknown
		unk := vc.declare("ifaceeq", SBool)
		return Or(Eq(a, b), And(Eq(ITag(a), ITag(b)), Ne(ITag(a), IntLit(0)), Not(Term{app("tagIsPtr", ITag(a)), SBool}), unk))
	case SReal:
		vc.note("float equality abstracted")
		return vc.declare("fleq", SBool)
	case SFn:
		return Eq(a, b)
	}
	if _, isStruct := xt.Underlying().(*types.Struct); isStruct {
		return f.structEq(xt, a, b)
	}
	return Eq(a, b)
}

func (f *frame) structEq(t types.Type, a, b Term) Term {
	tt := f.vc.tt
	u := t.Underlying().(*types.Struct)
	var cs []Term
	for i := 0; i < u.NumFields(); i++ {
		ft := u.Field(i).Type()
		x, y := tt.fieldSel(t, i, a), tt.fieldSel(t, i, b)
		if _, ok := ft.Underlying().(*types.Struct); ok {
			cs = append(cs, f.structEq(ft, x, y))
		} else if tt.sort(ft) == SIface || tt.sort(ft) == SReal {
			cs = append(cs, f.equal(ft, ft, x, y, nil, nil))
		} else {
			cs = append(cs, Eq(x, y))
		}
	}
	return And(cs...)
}

func isNilConst(v ssa.Value) bool {
	if v == nil {
		return false
	}
	c, ok := v.(*ssa.Const)
	return ok && c.Value == nil
}

func (f *frame) execSlice(x *ssa.Slice, g Term, st *State) error {
	vc := f.vc
	tt := vc.tt
	optVal := func(v ssa.Value, def Term) Term {
		if v == nil {
			return def
		}
		return f.val(v)
	}
	switch u := x.X.Type().Underlying().(type) {
	case *types.Slice:
		s := f.val(x.X)
		lo := optVal(x.Low, IntLit(0))
		hi := optVal(x.High, SLen(s))
		mx := optVal(x.Max, SCap(s))
		f.safety("slice", g, And(Le(IntLit(0), lo), Le(lo, hi), Le(hi, mx), Le(mx, SCap(s))), x)
		c := tt.cells(u.Elem())
		// a nil slice resliced stays nil (obj 0): offsets stay 0 because lo==0 is forced by cap 0
		f.set(x, MkSlice(SObj(s), Add(SOff(s), Mul(lo, IntLit(c))), Sub(hi, lo), Sub(mx, lo)))
	case *types.Pointer:
		at := u.Elem().Underlying().(*types.Array)
		p := f.val(x.X)
		f.nilCheck(x.X, p, g, x)
		n := IntLit(at.Len())
		lo := optVal(x.Low, IntLit(0))
		hi := optVal(x.High, n)
		mx := optVal(x.Max, n)
		f.safety("slice", g, And(Le(IntLit(0), lo), Le(lo, hi), Le(hi, mx), Le(mx, n)), x)
		c := tt.cells(at.Elem())
		f.set(x, MkSlice(PObj(p), Add(POff(p), Mul(lo, IntLit(c))), Sub(hi, lo), Sub(mx, lo)))
	case *types.Basic: // string
		s := f.val(x.X)
		ln := Term{app("slen_", s), SInt}
		lo := optVal(x.Low, IntLit(0))
		hi := optVal(x.High, ln)
		f.safety("slice", g, And(Le(IntLit(0), lo), Le(lo, hi), Le(hi, ln)), x)
		f.set(x, Term{app("ssub", s, lo, hi), SStr})
		vc.assume(g, Eq(Term{app("slen_", f.vals[x]), SInt}, Sub(hi, lo)))
	default:
		return fmt.Errorf("Slice on %s", x.X.Type())
	}
	return nil
}

func (f *frame) execTypeAssert(x *ssa.TypeAssert, g Term, st *State) error {
	vc := f.vc
	tt := vc.tt
	v := f.val(x.X)
	var ok, res Term
	if _, isIface := x.AssertedType.Underlying().(*types.Interface); isIface {
		// dynamic type implements the interface?  statically known when X's type already does
		if types.AssignableTo(x.X.Type(), x.AssertedType) {
			ok = Ne(ITag(v), IntLit(0))
		} else {
			u := vc.declare("implements", SBool)
			ok = And(Ne(ITag(v), IntLit(0)), u)
		}
		res = v
	} else {
		tag := IntLit(int64(tt.tag(x.AssertedType)))
		ok = Eq(ITag(v), tag)
		if tt.sort(x.AssertedType) == SPtr {
			res = IPl(v)
		} else {
			pl := IPl(v)
			res = vc.load(st, x.AssertedType, PObj(pl), POff(pl))
		}
	}
	ok = vc.define(f.pfx+"taok", ok)
	if x.CommaOk {
		z := tt.zero(x.AssertedType)
		r := vc.define(f.pfx+"ta", Ite(ok, res, z))
		vc.assume(g, tt.wf(x.AssertedType, r, st.Alloc))
		f.tup[x] = []Term{r, ok}
	} else {
		f.safety("assert", g, ok, x)
		f.set(x, res)
		vc.assume(g, tt.wf(x.AssertedType, f.vals[x], st.Alloc))
	}
	return nil
}

func (f *frame) execConvert(x *ssa.Convert, g Term, st *State) error {
	vc := f.vc
	tt := vc.tt
	from, to := x.X.Type(), x.Type()
	fb, tb := basicOf(from), basicOf(to)
	v := f.val(x.X)
	switch {
	case fb != nil && tb != nil && isIntKind(fb) && isIntKind(tb):
		flo, fhi := intRange(fb)
		tlo, thi := intRange(tb)
		if flo.Cmp(tlo) >= 0 && fhi.Cmp(thi) <= 0 {
			f.set(x, v)
		} else {
			f.set(x, wrapMod(tb, v))
		}
	case tb != nil && tb.Info()&types.IsString != 0:
		// string(bytes) / string(rune)
		if _, ok := from.Underlying().(*types.Slice); ok {
			// the string is a function of the byte heap and the slice header (same bytes at the same
			// place give the same string; equal content elsewhere is not identified: incomplete, not unsound)
			f.set(x, vc.strOf(st, v))
			vc.assume(g, Eq(Term{app("slen_", f.vals[x]), SInt}, SLen(v)))
		} else {
			f.setFresh(x, g, st.Alloc)
		}
	case fb != nil && fb.Info()&types.IsString != 0:
		if sl, ok := to.Underlying().(*types.Slice); ok {
			obj := vc.allocObj(st, sl.Elem())
			ln := Term{app("slen_", v), SInt}
			// contents: bytes of the string (per-index relation via quantifier-free skolem use is not needed by current contracts)
			h := vc.heap(st, vc.byteKind())
			fr := vc.declare("strbytes", ArraySort(SInt, SInt))
			vc.setHeap(st, vc.byteKind(), Store(h, obj, fr))
			f.set(x, MkSlice(obj, IntLit(0), ln, ln))
			// converting the bytes back gives the string again
			vc.assume(g, Eq(vc.strOf(st, f.vals[x]), v))
		} else {
			f.setFresh(x, g, st.Alloc)
		}
	case tt.sort(from) == tt.sort(to) && tt.sort(to) != SInt:
		f.set(x, v)
	default:
		vc.note("conversion %s -> %s abstracted", from, to)
		f.setFresh(x, g, st.Alloc)
	}
	return nil
}

// nilCheck emits a nil-dereference obligation unless the pointer is non-nil by construction
// (address of a local, a global, or a field/element address whose base was already checked).
func (f *frame) nilCheck(v ssa.Value, p Term, g Term, in ssa.Instruction) {
	switch v.(type) {
	case *ssa.Alloc, *ssa.Global, *ssa.FieldAddr, *ssa.IndexAddr:
		return
	}
	f.safety("nil", g, Ne(PObj(p), IntLit(0)), in)
}
