package vc

import (
	"fmt"
	"go/types"
	"sort"
	"strings"

	"gocv/spec"

	"golang.org/x/tools/go/ssa"
)

// modLoc is one evaluated modifies target.
type modLoc struct {
	key    string // heap key
	obj    Term
	lo, hi Term // [lo,hi) cell offsets; ignored when whole
	whole  bool
	all    bool // every cell of this heap kind (modifies kindof(loc))
	single bool // hi == lo+1
	cond   Term // the location may change only if this entry-state condition holds
	ty     types.Type // type of a single cell (for the type invariant of its new value)
}

func (f *frame) calleeSpec(cm *ssa.CallCommon) (*spec.FuncSpec, *ssa.Function) {
	vc := f.vc
	if cm.IsInvoke() {
		// interface method: (Iface).Method in the interface's package
		recv := cm.Value.Type()
		name := ifaceMethodKey(recv, cm.Method)
		if sp, ok := vc.P.Specs[name]; ok {
			return sp, nil
		}
		return nil, nil
	}
	callee := cm.StaticCallee()
	if callee == nil {
		return nil, nil
	}
	if sp, ok := vc.P.Specs[FuncKey(callee)]; ok {
		return sp, callee
	}
	return nil, callee
}

func ifaceMethodKey(recv types.Type, m *types.Func) string {
	pkg := ""
	tn := "?"
	if n, ok := recv.(*types.Named); ok {
		if n.Obj().Pkg() != nil {
			pkg = n.Obj().Pkg().Path()
		}
		tn = n.Obj().Name()
	}
	return Key(pkg, "("+tn+")."+m.Name())
}

func resultNames(sig *types.Signature, sp *spec.FuncSpec) []string {
	n := sig.Results().Len()
	out := make([]string, n)
	for i := 0; i < n; i++ {
		out[i] = sig.Results().At(i).Name()
		if sp != nil && i < len(sp.Results) {
			out[i] = sp.Results[i]
		}
		if out[i] == "" || out[i] == "_" {
			out[i] = fmt.Sprintf("ret%d", i)
		}
	}
	return out
}

// bindResults adds result names (plus aliases result / err) to names.
func bindResults(names map[string]SV, sig *types.Signature, sp *spec.FuncSpec, vals []Term) {
	rn := resultNames(sig, sp)
	for i, n := range rn {
		names[n] = SV{T: vals[i], Ty: sig.Results().At(i).Type()}
		names[fmt.Sprintf("ret%d", i)] = names[n]
	}
	if len(rn) == 1 {
		if _, ok := names["result"]; !ok {
			names["result"] = names[rn[0]]
		}
	}
	if len(rn) > 0 {
		last := sig.Results().At(len(rn) - 1).Type()
		if types.TypeString(last, nil) == "error" {
			if _, ok := names["err"]; !ok {
				names["err"] = names[rn[len(rn)-1]]
			}
		}
	}
}

func paramNames(callee *ssa.Function, sig *types.Signature, sp *spec.FuncSpec, invoke bool) []string {
	var out []string
	if callee != nil {
		for _, p := range callee.Params {
			out = append(out, p.Name())
		}
		return out
	}
	if sp != nil && len(sp.Params) > 0 {
		return sp.Params
	}
	if invoke {
		out = append(out, "recv")
	}
	for i := 0; i < sig.Params().Len(); i++ {
		n := sig.Params().At(i).Name()
		if n == "" || n == "_" {
			n = fmt.Sprintf("arg%d", i)
		}
		out = append(out, n)
	}
	return out
}

func (vc *VC) pkgOf(callee *ssa.Function, sp *spec.FuncSpec) *types.Package {
	if callee != nil {
		if callee.Pkg != nil {
			return callee.Pkg.Pkg
		}
		if callee.Parent() != nil && callee.Parent().Pkg != nil {
			return callee.Parent().Pkg.Pkg
		}
	}
	if sp != nil {
		for _, p := range vc.P.SSA.AllPackages() {
			if p.Pkg.Path() == sp.Pkg {
				return p.Pkg
			}
		}
	}
	return nil
}

func (f *frame) execCall(v ssa.Value, cm *ssa.CallCommon, g Term, st *State) error {
	vc := f.vc
	if bi, ok := cm.Value.(*ssa.Builtin); ok {
		return f.execBuiltin(v, bi, cm, g, st)
	}
	var args []Term
	var argTypes []types.Type
	if cm.IsInvoke() {
		recv := f.val(cm.Value)
		f.safety("nil", g, Ne(ITag(recv), IntLit(0)), instrOf(v, f))
		args = append(args, recv)
		argTypes = append(argTypes, cm.Value.Type())
	}
	for _, a := range cm.Args {
		args = append(args, f.val(a))
		argTypes = append(argTypes, a.Type())
	}
	sig := cm.Signature()
	sp, callee := f.calleeSpec(cm)
	var free []Term
	if mc, ok := cm.Value.(*ssa.MakeClosure); ok {
		for _, b := range mc.Bindings {
			free = append(free, f.val(b))
		}
	}
	// dynamic call through a function value
	if callee == nil && !cm.IsInvoke() {
		ord := f.dynOrdinal(cm)
		fv := f.val(cm.Value)
		f.safety("nil", g, Ne(fv, Term{"0", SFn}), instrOf(v, f))
		if ci := vc.closures[fv.S]; ci != nil && len(ci.fn.Blocks) > 0 && f.depth < 6 {
			// the value is a closure made in this very VC (it reached here through inlined frames):
			// the call is static.  A closure has no contract of its own (it talks about captured
			// variables), so its body is inlined.
			callee = ci.fn
			free = ci.free
			if csp, ok := vc.P.Specs[FuncKey(callee)]; ok && !csp.Inline {
				sp = csp
			} else {
				results, err := f.inlineCall(callee, free, args, g, st)
				if err != nil {
					return err
				}
				f.setResults(v, sig, results)
				return nil
			}
		} else if f.spec != nil {
			if name, ok := f.spec.DynCalls[ord]; ok {
				fs := vc.P.FnSpecs[name]
				if fs == nil {
					return fmt.Errorf("unknown fnspec %s", name)
				}
				sp = fs
			}
		}
	}
	if cm.IsInvoke() && sp != nil && len(sp.Dispatch) > 0 {
		return f.dispatchCall(v, sp, cm, args, g, st)
	}
	var results []Term
	var err error
	switch {
	case sp != nil && sp.Inline && callee != nil && len(callee.Blocks) > 0 && f.depth < 4:
		results, err = f.inlineCall(callee, free, args, g, st)
	case sp != nil:
		results, err = f.applySpec(sp, callee, sig, cm.IsInvoke(), args, argTypes, g, st, v)
	case callee != nil && isLeaf(callee) && f.depth < 4:
		// a straight-line function without calls and without a contract: its body is its contract
		vc.note("leaf function %s inlined", FuncKey(callee))
		results, err = f.inlineCall(callee, free, args, g, st)
	default:
		name := "dynamic call"
		if callee != nil {
			name = FuncKey(callee)
		} else if cm.IsInvoke() {
			name = ifaceMethodKey(cm.Value.Type(), cm.Method)
		}
		vc.note("call to %s has no contract: memory havocked, result unconstrained", name)
		vc.havocAll(st, g)
		for i := 0; i < sig.Results().Len(); i++ {
			t := vc.declare(f.pfx+"callres", vc.tt.sort(sig.Results().At(i).Type()))
			vc.assume(True, vc.tt.wf(sig.Results().At(i).Type(), t, st.Alloc))
			results = append(results, t)
		}
	}
	if err != nil {
		return err
	}
	f.setResults(v, sig, results)
	return nil
}

func (f *frame) setResults(v ssa.Value, sig *types.Signature, results []Term) {
	if v != nil {
		switch sig.Results().Len() {
		case 0:
		case 1:
			f.set(v, results[0])
		default:
			f.tup[v] = results
		}
	}
}

func instrOf(v ssa.Value, f *frame) ssa.Instruction {
	if in, ok := v.(ssa.Instruction); ok {
		return in
	}
	return f.fn.Blocks[0].Instrs[0]
}

// evalMods evaluates the modifies clause of sp in env (old state).
// evalMods evaluates a modifies clause.  phase 0: the entries named through parameters (entry
// state); phase 1: the `modifies@exit` entries, named through the results (env binds them; heap
// reads still use the entry state, on both the proving and the using side); phase 2: all.
func (vc *VC) evalMods(sp *spec.FuncSpec, env *Env, phase int) ([]modLoc, error) {
	tt := vc.tt
	var out []modLoc
	curCond := True // entry-state condition of the modifies entry being expanded
	addLoc := func(l *Loc) {
		// expand scalar cells of the location's type
		var walk func(t types.Type, off Term)
		walk = func(t types.Type, off Term) {
			switch u := t.Underlying().(type) {
			case *types.Struct:
				for i := 0; i < u.NumFields(); i++ {
					walk(u.Field(i).Type(), Add(off, IntLit(tt.fieldOff(u, i))))
				}
			case *types.Array:
				acc := map[string]bool{}
				tt.kinds(u.Elem(), acc)
				n := u.Len() * tt.cells(u.Elem())
				for k := range acc {
					out = append(out, modLoc{cond: curCond, key: k, obj: l.Obj, lo: off, hi: Add(off, IntLit(n))})
				}
			default:
				out = append(out, modLoc{cond: curCond, key: tt.kind(t), obj: l.Obj, lo: off, hi: Add(off, IntLit(1)), single: true, ty: t})
			}
		}
		walk(l.Ty, l.Off)
	}
	for i, m := range sp.Modifies {
		atExit := i < len(sp.ModAtExit) && sp.ModAtExit[i]
		if (phase == 0 && atExit) || (phase == 1 && !atExit) {
			continue
		}
		curCond = True
		if i < len(sp.ModCond) && sp.ModCond[i] != nil {
			c, err := env.evalBool(sp.ModCond[i])
			if err != nil {
				return nil, fmt.Errorf("modifies %s: %v", sp.ModSrc[i], err)
			}
			if c.S == "false" {
				continue // can never apply (e.g. a dynamic type that is not part of the loaded program)
			}
			curCond = vc.define("modcond", c)
		}
		switch n := m.(type) {
		case *spec.SliceE:
			sv, err := env.eval(n)
			if err != nil {
				return nil, fmt.Errorf("modifies %s: %v", sp.ModSrc[i], err)
			}
			st, ok := sv.Ty.Underlying().(*types.Slice)
			if !ok {
				return nil, fmt.Errorf("modifies %s: not a slice", sp.ModSrc[i])
			}
			c := tt.cells(st.Elem())
			acc := map[string]bool{}
			tt.kinds(st.Elem(), acc)
			for k := range acc {
				out = append(out, modLoc{cond: curCond, key: k, obj: SObj(sv.T), lo: SOff(sv.T), hi: Add(SOff(sv.T), Mul(SLen(sv.T), IntLit(c)))})
			}
		case *spec.Call:
			if n.Fun == "kindof" {
				// every cell of the heap kind(s) of this location's type, in any object: a coarse
				// but true frame for writes whose set of objects a contract cannot enumerate
				var ty types.Type
				if sl, ok := n.Args[0].(*spec.StrLit); ok {
					// kindof("uint64"), kindof("*bc.ValueDestination"): the cell type by name
					if o, ok := types.Universe.Lookup(sl.Val).(*types.TypeName); ok {
						ty = o.Type()
					} else {
						t, err := env.lookupType(sl.Val)
						if err != nil {
							return nil, fmt.Errorf("modifies %s: %v", sp.ModSrc[i], err)
						}
						ty = t
					}
				} else {
					sv, err := env.eval(n.Args[0])
					if err != nil {
						return nil, fmt.Errorf("modifies %s: %v", sp.ModSrc[i], err)
					}
					ty = sv.Ty
					if sv.Loc != nil {
						ty = sv.Loc.Ty
					}
				}
				if ty == nil {
					return nil, fmt.Errorf("modifies %s: untyped", sp.ModSrc[i])
				}
				acc := map[string]bool{}
				tt.kinds(ty, acc)
				if mt, ok := ty.Underlying().(*types.Map); ok {
					// kindof(m) for a map: the contents of every map of that type (e.g. the inner maps
					// of a map of maps, whose objects a contract cannot enumerate)
					for _, k := range vc.mapKeys(mt) {
						acc[k] = true
					}
				}
				for k := range acc {
					out = append(out, modLoc{cond: curCond, key: k, all: true, obj: IntLit(0), lo: IntLit(0), hi: IntLit(0)})
				}
				continue
			}
			if n.Fun == "obj" || n.Fun == "whole" {
				sv, err := env.eval(n.Args[0])
				if err != nil {
					return nil, fmt.Errorf("modifies %s: %v", sp.ModSrc[i], err)
				}
				var obj Term
				var et types.Type
				switch sv.T.Sort {
				case SPtr:
					obj = PObj(sv.T)
					et, _ = derefType(sv.Ty)
					if mt, ok := sv.Ty.Underlying().(*types.Map); ok {
						for _, k := range vc.mapKeys(mt) {
							out = append(out, modLoc{cond: curCond, key: k, obj: obj, whole: true})
						}
						continue
					}
				case SSlice:
					obj = SObj(sv.T)
					et = sv.Ty.Underlying().(*types.Slice).Elem()
				default:
					return nil, fmt.Errorf("modifies %s: obj() of %s", sp.ModSrc[i], sv.T.Sort)
				}
				acc := map[string]bool{}
				if et != nil {
					tt.kinds(et, acc)
				}
				for k := range acc {
					out = append(out, modLoc{cond: curCond, key: k, obj: obj, whole: true})
				}
				continue
			}
			return nil, fmt.Errorf("modifies %s: unsupported form", sp.ModSrc[i])
		default:
			sv, err := env.eval(m)
			if err != nil {
				return nil, fmt.Errorf("modifies %s: %v", sp.ModSrc[i], err)
			}
			if sv.Ty != nil {
				if mt, ok := sv.Ty.Underlying().(*types.Map); ok && sv.Loc == nil {
					for _, k := range vc.mapKeys(mt) {
						out = append(out, modLoc{cond: curCond, key: k, obj: PObj(sv.T), whole: true})
					}
					continue
				}
			}
			if sv.Loc == nil {
				return nil, fmt.Errorf("modifies %s: not a memory location", sp.ModSrc[i])
			}
			addLoc(sv.Loc)
		}
	}
	return out, nil
}

// scratch runs fn without leaving commands behind (for static pre-analysis).
func (vc *VC) scratch(fn func()) {
	saveCmds := vc.cmds
	saveDecl := vc.heapDecl
	saveN := vc.nfresh
	saveNotes := vc.Notes
	saveStr := vc.strLits
	saveSums, saveCache := vc.sums, vc.sumCache
	vc.sumCache = map[string]*sumInst{}
	vc.sums = map[string][]*sumInst{}
	vc.cmds = nil
	vc.heapDecl = map[string]bool{}
	for k, v := range saveDecl {
		vc.heapDecl[k] = v
	}
	vc.strLits = map[string]string{}
	for k, v := range saveStr {
		vc.strLits[k] = v
	}
	fn()
	vc.cmds = saveCmds
	vc.heapDecl = saveDecl
	vc.nfresh = saveN
	vc.Notes = saveNotes
	vc.strLits = saveStr
	vc.sums, vc.sumCache = saveSums, saveCache
}

// modKeysOf: heap keys a contracted callee may write (nil: unknown => all).
func (vc *VC) modKeysOf(sp *spec.FuncSpec, callee *ssa.Function, cm *ssa.CallCommon) map[string]bool {
	var res map[string]bool
	vc.scratch(func() {
		sig := cm.Signature()
		names := map[string]SV{}
		pn := paramNames(callee, sig, sp, cm.IsInvoke())
		var tys []types.Type
		if cm.IsInvoke() {
			tys = append(tys, cm.Value.Type())
		}
		if callee != nil {
			tys = nil
			for _, p := range callee.Params {
				tys = append(tys, p.Type())
			}
		} else {
			for i := 0; i < sig.Params().Len(); i++ {
				tys = append(tys, sig.Params().At(i).Type())
			}
		}
		for i, n := range pn {
			if i < len(tys) {
				names[n] = SV{T: Term{"dummy_" + sanitize(n), vc.tt.sort(tys[i])}, Ty: tys[i]}
			}
		}
		st := &State{H: map[string]Term{}, Alloc: Term{"dummy_alloc", SInt}, Base: &base{id: "dummy"}}
		var dres []Term
		for i := 0; i < sig.Results().Len(); i++ {
			dres = append(dres, Term{fmt.Sprintf("dummy_res%d", i), vc.tt.sort(sig.Results().At(i).Type())})
		}
		bindResults(names, sig, sp, dres)
		env := &Env{vc: vc, names: names, st: st, old: st, pkg: vc.pkgOf(callee, sp)}
		mods, err := vc.evalMods(sp, env, 2)
		if err != nil {
			return
		}
		res = map[string]bool{}
		for _, m := range mods {
			res[m.key] = true
		}
	})
	return res
}

// havocMods applies a modifies clause to the caller's state.
func (vc *VC) havocMods(st *State, mods []modLoc) (wfs []func()) {
	for _, m := range mods {
		m := m
		before := vc.heap(st, m.key)
		conditional := m.cond.S != "true" && m.cond.S != ""
		h := before
		inner := arrayElemSort(h.Sort)
		switch {
		case m.all:
			hk := vc.declare("hk", h.Sort)
			vc.setHeap(st, m.key, hk)
			wfs = append(wfs, func() { vc.heapWF(hk, m.key, st.Alloc.S) })
			wfs = append(wfs, func() { vc.mapCard(hk, m.key, vc.heap(st, "ML"), "") })
		case m.whole:
			fr := vc.declare("hv", inner)
			vc.setHeap(st, m.key, Store(h, m.obj, fr))
			wfs = append(wfs, func() { vc.rowWF(fr, m.key, st.Alloc.S) })
			wfs = append(wfs, func() { vc.mapCard(fr, m.key, vc.heap(st, "ML"), m.obj.S) })
		case m.single:
			fr := vc.declare("hv", arrayElemSort(inner))
			vc.setHeap(st, m.key, Store(h, m.obj, Store(Select(h, m.obj), m.lo, fr)))
			if m.ty != nil {
				wfs = append(wfs, func() { vc.assume(True, vc.tt.wf(m.ty, fr, st.Alloc)) })
			}
		default:
			fr := vc.declare("hv", inner)
			vc.nfresh++
			j := fmt.Sprintf("j_%d", vc.nfresh)
			jt := Term{j, SInt}
			old := vc.define("hvold", Select(h, m.obj))
			body := Implies(Or(Lt(jt, m.lo), Ge(jt, m.hi)), Eq(Select(fr, jt), Select(old, jt)))
			vc.cmd(fmt.Sprintf("(assert (forall ((%s Int)) (! %s :pattern ((select %s %s)))))", j, body.S, fr.S, j))
			vc.setHeap(st, m.key, Store(h, m.obj, fr))
		}
		if conditional {
			// the location changes only under m.cond: keep the old heap otherwise
			vc.setHeap(st, m.key, Ite(m.cond, vc.heap(st, m.key), before))
		}
	}
	return wfs
}

// contractPart is one piece of a callee's effective contract: its own clauses
// or those of a fnspec it refines (parameters and results matched by position).
type contractPart struct {
	sp      *spec.FuncSpec
	names   map[string]SV
	resName []string // nil: use signature names
}

func (f *frame) applySpec(sp *spec.FuncSpec, callee *ssa.Function, sig *types.Signature, invoke bool,
	args []Term, argTypes []types.Type, g Term, st *State, v ssa.Value) ([]Term, error) {
	vc := f.vc
	sp.Used = true
	label := Key(sp.Pkg, sp.Name)
	if sp.Assumed {
		vc.addAssumed(label)
	} else {
		vc.addCallee(label)
	}
	names := map[string]SV{}
	pn := paramNames(callee, sig, sp, invoke)
	var tys []types.Type
	for i, n := range pn {
		if i < len(args) {
			ty := argTypes[i]
			if callee != nil && i < len(callee.Params) {
				ty = callee.Params[i].Type()
			}
			tys = append(tys, ty)
			names[n] = SV{T: args[i], Ty: ty}
		}
	}
	parts := []contractPart{{sp: sp, names: names}}
	for _, rn := range sp.Refines {
		fs := vc.P.FnSpecs[rn]
		if fs == nil {
			return nil, fmt.Errorf("%s:%d: unknown fnspec %s", sp.File, sp.Line, rn)
		}
		rnames := map[string]SV{}
		for i, p := range fs.Params {
			if i < len(args) && i < len(tys) {
				rnames[p] = SV{T: args[i], Ty: tys[i]}
			}
		}
		parts = append(parts, contractPart{sp: fs, names: rnames, resName: fs.Results})
	}
	pkg := vc.pkgOf(callee, sp)
	old := st.clone()
	where := ""
	if in, ok := v.(ssa.Instruction); ok {
		where = f.pos(in)
	}
	var results []Term
	for i := 0; i < sig.Results().Len(); i++ {
		rt := sig.Results().At(i).Type()
		results = append(results, vc.declare(f.pfx+"r_"+shortName(sp), vc.tt.sort(rt)))
	}
	hasMod := false
	for _, part := range parts {
		pre := &Env{vc: vc, names: part.names, st: old, old: old, pkg: pkg}
		for _, c := range part.sp.Requires {
			t, err := pre.evalBool(c.E)
			if err != nil {
				return nil, fmt.Errorf("%s:%d: %v", c.File, c.Line, err)
			}
			props := c.Props
			if len(props) == 0 {
				props = part.sp.Props
			}
			// precondition obligations belong to the caller's properties too
			props = unionProps(props, vc.curProps)
			rk := "requires@" + shortName(sp)
			if c.Label != "" {
				rk += ":" + c.Label
			}
			vc.oblige(rk, props, g, t, c.Src, where)
		}
		if part.sp.HasMod {
			hasMod = true
		}
	}
	// frame
	if !hasMod {
		vc.havocAll(st, g)
	} else {
		var mods []modLoc
		for _, part := range parts {
			if !part.sp.HasMod {
				continue
			}
			pre := &Env{vc: vc, names: part.names, st: old, old: old, pkg: pkg}
			m, err := vc.evalMods(part.sp, pre, 0)
			if err != nil {
				return nil, fmt.Errorf("%s:%d: %v", part.sp.File, part.sp.Line, err)
			}
			mods = append(mods, m...)
			// locations named through the results (modifies@exit)
			rn := map[string]SV{}
			for k, x := range part.names {
				rn[k] = x
			}
			if part.resName == nil {
				bindResults(rn, sig, sp, results)
			} else {
				for i, r := range part.resName {
					if i < len(results) {
						rn[r] = SV{T: results[i], Ty: sig.Results().At(i).Type()}
					}
				}
			}
			m, err = vc.evalMods(part.sp, &Env{vc: vc, names: rn, st: old, old: old, pkg: pkg}, 1)
			if err != nil {
				return nil, fmt.Errorf("%s:%d: %v", part.sp.File, part.sp.Line, err)
			}
			mods = append(mods, m...)
		}
		wfs := vc.havocMods(st, mods)
		if !sp.Pure {
			oa := st.Alloc
			st.Alloc = vc.declare("alloc", SInt)
			vc.assume(True, Ge(st.Alloc, oa))
		}
		for _, w := range wfs {
			w() // type invariants of the havocked cells w.r.t. the new frontier
		}
	}
	for i := 0; i < sig.Results().Len(); i++ {
		vc.assume(True, vc.tt.wf(sig.Results().At(i).Type(), results[i], st.Alloc))
	}
	for _, part := range parts {
		post := map[string]SV{}
		for k, x := range part.names {
			post[k] = x
		}
		if part.resName == nil {
			bindResults(post, sig, sp, results)
		} else {
			for i, rn := range part.resName {
				if i < len(results) {
					post[rn] = SV{T: results[i], Ty: sig.Results().At(i).Type()}
				}
			}
		}
		env := &Env{vc: vc, names: post, st: st, old: old, pkg: pkg}
		for _, c := range part.sp.Ensures {
			if strings.HasPrefix(c.Label, "lemma-") {
				// a stepping stone inside the callee's own proof (proved there, assumed for its later
				// clauses): not part of what callers see, so that it costs them nothing
				continue
			}
			t, err := env.evalBool(c.E)
			if err != nil {
				return nil, fmt.Errorf("%s:%d: %v", c.File, c.Line, err)
			}
			vc.assume(g, t)
			for _, pr := range c.Props {
				if pr == "ASSUMED" {
					vc.addAssumed("unproved clause of " + label + ": " + c.Src)
				}
			}
		}
	}
	return results, nil
}

func unionProps(a, b []string) []string {
	seen := map[string]bool{}
	var out []string
	for _, x := range append(append([]string{}, a...), b...) {
		if !seen[x] {
			seen[x] = true
			out = append(out, x)
		}
	}
	sort.Strings(out)
	return out
}

func shortName(sp *spec.FuncSpec) string {
	n := sp.Name
	n = strings.NewReplacer("(", "", ")", "", "*", "").Replace(n)
	return n
}

func (vc *VC) addAssumed(s string) {
	for _, x := range vc.Assumed {
		if x == s {
			return
		}
	}
	vc.Assumed = append(vc.Assumed, s)
}
func (vc *VC) addCallee(s string) {
	for _, x := range vc.Callees {
		if x == s {
			return
		}
	}
	vc.Callees = append(vc.Callees, s)
}

func (f *frame) inlineCall(callee *ssa.Function, free []Term, args []Term, g Term, st *State) ([]Term, error) {
	vc := f.vc
	vc.nframes++
	nf := &frame{vc: vc, fn: callee, pfx: fmt.Sprintf("i%d_", vc.nframes), vals: map[ssa.Value]Term{}, tup: map[ssa.Value][]Term{},
		spec: vc.P.Specs[FuncKey(callee)], depth: f.depth + 1, rangeOf: map[ssa.Value]*rangeInfo{}}
	if len(free) != len(callee.FreeVars) {
		return nil, fmt.Errorf("cannot inline closure %s: bindings unknown", callee.Name())
	}
	if err := nf.run(args, free, st, g); err != nil {
		return nil, err
	}
	if len(nf.rets) == 0 {
		// callee never returns (always panics): path is dead afterwards
		vc.assume(g, False)
		var rs []Term
		for i := 0; i < callee.Signature.Results().Len(); i++ {
			rs = append(rs, vc.tt.zero(callee.Signature.Results().At(i).Type()))
		}
		return rs, nil
	}
	var conds []Term
	var sts []*State
	for _, r := range nf.rets {
		conds = append(conds, r.guard)
		sts = append(sts, r.st)
	}
	m := vc.merge(conds, sts)
	*st = *m
	nres := callee.Signature.Results().Len()
	results := make([]Term, nres)
	for i := 0; i < nres; i++ {
		t := nf.rets[len(nf.rets)-1].vals[i]
		for k := len(nf.rets) - 2; k >= 0; k-- {
			t = Ite(nf.rets[k].guard, nf.rets[k].vals[i], t)
		}
		t.Sort = vc.tt.sort(callee.Signature.Results().At(i).Type())
		results[i] = vc.define(nf.pfx+"ret", t)
	}
	// paths on which the callee does not return (explicit panic) are excluded by its safety obligations
	return results, nil
}

func (f *frame) runDefers(g Term, st *State) error {
	vc := f.vc
	for i := len(f.defers) - 1; i >= 0; i-- {
		d := f.defers[i]
		cm := d.instr.Common()
		guard := And(g, d.flag)
		// recover-only closures: treat as no-ops (panics are excluded by safety obligations)
		if callee := cm.StaticCallee(); callee != nil && usesRecover(callee) {
			vc.note("deferred recover handler %s abstracted (panics are excluded separately by safety obligations)", callee.Name())
			continue
		}
		branch := st.clone()
		if err := f.execCall(nil, cm, guard, branch); err != nil {
			return err
		}
		m := vc.merge([]Term{d.flag, Not(d.flag)}, []*State{branch, st})
		*st = *m
	}
	return nil
}

func usesRecover(fn *ssa.Function) bool {
	for _, b := range fn.Blocks {
		for _, in := range b.Instrs {
			if c, ok := in.(*ssa.Call); ok {
				if bi, ok := c.Call.Value.(*ssa.Builtin); ok && bi.Name() == "recover" {
					return true
				}
			}
		}
	}
	return false
}

// ---- builtins ----

func (f *frame) execBuiltin(v ssa.Value, bi *ssa.Builtin, cm *ssa.CallCommon, g Term, st *State) error {
	vc := f.vc
	tt := vc.tt
	switch bi.Name() {
	case "len", "cap":
		a := f.val(cm.Args[0])
		switch u := cm.Args[0].Type().Underlying().(type) {
		case *types.Slice:
			if bi.Name() == "len" {
				f.set(v, SLen(a))
			} else {
				f.set(v, SCap(a))
			}
		case *types.Basic:
			f.set(v, Term{app("slen_", a), SInt})
			vc.assume(g, Ge(f.vals[v], IntLit(0)))
		case *types.Map:
			f.set(v, vc.mapLen(st, a))
			vc.assume(g, Ge(f.vals[v], IntLit(0)))
		case *types.Array:
			f.set(v, IntLit(u.Len()))
		case *types.Pointer:
			f.set(v, IntLit(u.Elem().Underlying().(*types.Array).Len()))
		case *types.Chan:
			f.setFresh(v, g, st.Alloc)
		default:
			return fmt.Errorf("len of %s", cm.Args[0].Type())
		}
	case "append":
		return f.execAppend(v, cm, g, st)
	case "copy":
		dst := f.val(cm.Args[0])
		var n Term
		et := cm.Args[0].Type().Underlying().(*types.Slice).Elem()
		c := tt.cells(et)
		if tt.sort(cm.Args[1].Type()) == SStr {
			src := f.val(cm.Args[1])
			n = vc.define(f.pfx+"copyn", Term{app("imin", SLen(dst), Term{app("slen_", src), SInt}), SInt})
			// contents from a string: abstract
			h := vc.heap(st, vc.byteKind())
			fr := vc.declare("hv", ArraySort(SInt, SInt))
			vc.frameAxiom(fr, Select(h, SObj(dst)), SOff(dst), Add(SOff(dst), n))
			vc.setHeap(st, vc.byteKind(), Store(h, SObj(dst), fr))
		} else {
			src := f.val(cm.Args[1])
			n = vc.define(f.pfx+"copyn", Term{app("imin", SLen(dst), SLen(src)), SInt})
			vc.bulkCopy(st, et, SObj(dst), SOff(dst), SObj(src), SOff(src), Mul(n, IntLit(c)))
		}
		if v != nil {
			f.set(v, n)
		}
	case "delete":
		m := f.val(cm.Args[0])
		mt := cm.Args[0].Type().Underlying().(*types.Map)
		k := f.val(cm.Args[1])
		// delete on nil map is a no-op
		branch := st.clone()
		vc.mapDelete(branch, mt, PObj(m), k)
		merged := vc.merge([]Term{Ne(PObj(m), IntLit(0)), Eq(PObj(m), IntLit(0))}, []*State{branch, st})
		*st = *merged
	case "print", "println":
	case "recover":
		f.set(v, NilIface)
	case "min", "max":
		a := f.val(cm.Args[0])
		for _, x := range cm.Args[1:] {
			a = Term{app("i"+bi.Name(), a, f.val(x)), SInt}
		}
		f.set(v, a)
	case "ssa:wrapnilchk":
		f.set(v, f.val(cm.Args[0]))
	case "close":
		return fmt.Errorf("channel close is outside the verified subset")
	default:
		return fmt.Errorf("unsupported builtin %s", bi.Name())
	}
	return nil
}

// frameAxiom: fresh inner array fr equals old outside [lo,hi).
func (vc *VC) frameAxiom(fr, old Term, lo, hi Term) {
	vc.nfresh++
	j := fmt.Sprintf("j_%d", vc.nfresh)
	jt := Term{j, SInt}
	oldD := vc.define("hvold", old)
	body := Implies(Or(Lt(jt, lo), Ge(jt, hi)), Eq(Select(fr, jt), Select(oldD, jt)))
	vc.cmd(fmt.Sprintf("(assert (forall ((%s Int)) (! %s :pattern ((select %s %s)))))", j, body.S, fr.S, j))
}

// bulkCopy copies n cells from (sobj,soff) to (dobj,doff) with memmove semantics, for all kinds of et.
func (vc *VC) bulkCopy(st *State, et types.Type, dobj, doff, sobj, soff, ncells Term) {
	acc := map[string]bool{}
	vc.tt.kinds(et, acc)
	ks := make([]string, 0, len(acc))
	for k := range acc {
		ks = append(ks, k)
	}
	sort.Strings(ks)
	if n, ok := isLit(ncells); ok && n.Int64() <= 8 {
		// small constant copy: explicit cell moves (snapshot source first)
		for _, k := range ks {
			h := vc.heap(st, k)
			srcArr := vc.define("cpsrc", Select(h, sobj))
			dst := Select(h, dobj)
			for i := int64(0); i < n.Int64(); i++ {
				dst = Store(dst, Add(doff, IntLit(i)), Select(srcArr, Add(soff, IntLit(i))))
			}
			vc.setHeap(st, k, Store(h, dobj, dst))
		}
		return
	}
	for _, k := range ks {
		h := vc.heap(st, k)
		inner := arrayElemSort(h.Sort)
		srcArr := vc.define("cpsrc", Select(h, sobj))
		oldDst := vc.define("cpold", Select(h, dobj))
		fr := vc.declare("cpdst", inner)
		vc.nfresh++
		j := fmt.Sprintf("j_%d", vc.nfresh)
		jt := Term{j, SInt}
		in := And(Le(doff, jt), Lt(jt, Add(doff, ncells)))
		body := Eq(Select(fr, jt), Ite(in, Select(srcArr, Add(soff, Sub(jt, doff))), Select(oldDst, jt)))
		vc.cmd(fmt.Sprintf("(assert (forall ((%s Int)) (! %s :pattern ((select %s %s)))))", j, body.S, fr.S, j))
		vc.setHeap(st, k, Store(h, dobj, fr))
	}
}

func (f *frame) execAppend(v ssa.Value, cm *ssa.CallCommon, g Term, st *State) error {
	vc := f.vc
	tt := vc.tt
	s := f.val(cm.Args[0])
	et := cm.Args[0].Type().Underlying().(*types.Slice).Elem()
	c := tt.cells(et)
	var n, tobj, toff Term
	fromStr := tt.sort(cm.Args[1].Type()) == SStr
	if fromStr {
		n = Term{app("slen_", f.val(cm.Args[1])), SInt}
	} else {
		t := f.val(cm.Args[1])
		n = SLen(t)
		tobj, toff = SObj(t), SOff(t)
	}
	n = vc.define(f.pfx+"appn", n)
	newLen := vc.define(f.pfx+"applen", Add(SLen(s), n))
	fits := vc.define(f.pfx+"appfits", Le(newLen, SCap(s)))
	if f.top && f.spec != nil && f.spec.AllocBound != nil {
		// a growing append allocates a constant factor of the new length (runtime growth policy,
		// listed as an assumption): the new length itself must stay inside the budget
		env := f.specEnv(st, nil, nil)
		if in, ok := v.(ssa.Instruction); ok {
			env.atBlock = in.Block()
		}
		b, err := env.eval(f.spec.AllocBound.E)
		if err != nil {
			return fmt.Errorf("%s:%d: %v", f.spec.AllocBound.File, f.spec.AllocBound.Line, err)
		}
		vc.oblige("alloc-budget", f.loopClauseProps(f.spec.AllocBound), And(g, Not(fits)), Le(Mul(newLen, IntLit(c)), b.T), f.spec.AllocBound.Src, f.pos(v.(ssa.Instruction)))
	}
	// in-place branch
	inpl := st.clone()
	if fromStr {
		h := vc.heap(inpl, vc.byteKind())
		fr := vc.declare("hv", ArraySort(SInt, SInt))
		lo := Add(SOff(s), SLen(s))
		vc.frameAxiom(fr, Select(h, SObj(s)), lo, Add(lo, n))
		vc.setHeap(inpl, vc.byteKind(), Store(h, SObj(s), fr))
	} else {
		vc.bulkCopy(inpl, et, SObj(s), Add(SOff(s), Mul(SLen(s), IntLit(c))), tobj, toff, Mul(n, IntLit(c)))
	}
	resIn := MkSlice(SObj(s), SOff(s), newLen, SCap(s))
	// reallocating branch
	re := st.clone()
	nobj := vc.allocObj(re, et)
	newCap := vc.declare(f.pfx+"appcap", SInt)
	// allocation succeeds (DESIGN §7.4): the grown slice respects the platform bound of 2^40 elements
	vc.assume(g, And(Ge(newCap, newLen), Le(newCap, BigLit(pow2Big(40)))))
	vc.bulkCopy(re, et, nobj, IntLit(0), SObj(s), SOff(s), Mul(SLen(s), IntLit(c)))
	if fromStr {
		h := vc.heap(re, vc.byteKind())
		fr := vc.declare("hv", ArraySort(SInt, SInt))
		lo := Mul(SLen(s), IntLit(c))
		vc.frameAxiom(fr, Select(h, nobj), lo, Add(lo, n))
		vc.setHeap(re, vc.byteKind(), Store(h, nobj, fr))
	} else {
		vc.bulkCopy(re, et, nobj, Mul(SLen(s), IntLit(c)), tobj, toff, Mul(n, IntLit(c)))
	}
	resRe := MkSlice(nobj, IntLit(0), newLen, newCap)
	m := vc.merge([]Term{fits, Not(fits)}, []*State{inpl, re})
	pre := st.clone()
	*st = *m
	if c == 1 && !fromStr {
		// a declared constant (define-fun names are macro-expanded, and `ite` cannot occur in patterns)
		ar := vc.declare(f.pfx+"appres", SSlice)
		vc.cmd(fmt.Sprintf("(assert (= %s %s))", ar.S, Ite(fits, resIn, resRe).S))
		f.set(v, ar)
	} else {
		f.set(v, Ite(fits, resIn, resRe))
	}
	if c == 1 && !fromStr {
		// consequences of the two branches, stated over the merged result so that quantified
		// facts about the elements instantiate directly (entailed by the definitions above):
		// the old elements keep their values and positions, the appended ones follow
		res := f.vals[v]
		acc := map[string]bool{}
		tt.kinds(et, acc)
		ks := make([]string, 0, len(acc))
		for k := range acc {
			ks = append(ks, k)
		}
		sort.Strings(ks)
		for _, k := range ks {
			h0 := vc.heap(pre, k)
			h1 := vc.declare("happ", heapKeySort(k))
			vc.cmd(fmt.Sprintf("(assert (= %s %s))", h1.S, vc.heap(st, k).S))
			vc.nfresh++
			j := fmt.Sprintf("j_%d", vc.nfresh)
			jt := Term{j, SInt}
			newCell := Select(Select(h1, SObj(res)), Add(SOff(res), jt))
			oldCell := Select(Select(h0, SObj(s)), Add(SOff(s), jt))
			addCell := Select(Select(h0, tobj), Add(toff, Sub(jt, SLen(s))))
			body := And(
				Implies(And(Le(IntLit(0), jt), Lt(jt, SLen(s))), Eq(newCell, oldCell)),
				Implies(And(Le(SLen(s), jt), Lt(jt, newLen)), Eq(newCell, addCell)))
			vc.cmd(fmt.Sprintf("(assert (=> %s (forall ((%s Int)) (! %s :pattern (%s)))))", g.S, j, body.S, newCell.S))
			// the same two facts over the absolute cell index of the result (pattern without
			// arithmetic: any read of a cell of the result array instantiates them); they serve
			// clauses written with `elems()`
			vc.nfresh++
			am := fmt.Sprintf("m_%d", vc.nfresh)
			amt := Term{am, SInt}
			newAbs := Select(Select(h1, SObj(res)), amt)
			rel := Sub(amt, SOff(res))
			bodyAbs := And(
				Implies(And(Le(SOff(res), amt), Lt(amt, Add(SOff(res), SLen(s)))), Eq(newAbs, Select(Select(h0, SObj(s)), Add(SOff(s), rel)))),
				Implies(And(Le(Add(SOff(res), SLen(s)), amt), Lt(amt, Add(SOff(res), newLen))), Eq(newAbs, Select(Select(h0, tobj), Add(toff, Sub(rel, SLen(s)))))))
			vc.cmd(fmt.Sprintf("(assert (=> %s (forall ((%s Int)) (! %s :pattern (%s)))))", g.S, am, bodyAbs.S, newAbs.S))
		}
	}
	return nil
}

// ---- globals ----

func (p *Prog) scanGlobals() {
	if p.scanned {
		return
	}
	p.scanned = true
	p.mutGlobals = map[*ssa.Global]bool{}
	p.sentinels = map[*ssa.Global]bool{}
	for _, pkg := range p.SSA.AllPackages() {
		if !strings.HasPrefix(pkg.Pkg.Path(), p.ModPath) && !isStdErrPkg(pkg.Pkg.Path()) {
			continue
		}
		var fns []*ssa.Function
		for _, m := range pkg.Members {
			switch x := m.(type) {
			case *ssa.Function:
				fns = append(fns, x)
			case *ssa.Type:
				for _, t := range []types.Type{x.Type(), types.NewPointer(x.Type())} {
					ms := p.SSA.MethodSets.MethodSet(t)
					for i := 0; i < ms.Len(); i++ {
						if fn := p.SSA.MethodValue(ms.At(i)); fn != nil {
							fns = append(fns, fn)
						}
					}
				}
			}
		}
		seen := map[*ssa.Function]bool{}
		var visit func(fn *ssa.Function)
		visit = func(fn *ssa.Function) {
			if fn == nil || seen[fn] {
				return
			}
			seen[fn] = true
			isInit := fn.Name() == "init" || strings.HasPrefix(fn.Name(), "init#")
			for _, b := range fn.Blocks {
				for _, in := range b.Instrs {
					// uses of globals
					if st, ok := in.(*ssa.Store); ok {
						if g, ok := st.Addr.(*ssa.Global); ok {
							if !isInit {
								p.mutGlobals[g] = true
							} else if c, ok := st.Val.(*ssa.Call); ok {
								if callee := c.Call.StaticCallee(); callee != nil && callee.Name() == "New" && callee.Pkg != nil &&
									(callee.Pkg.Pkg.Name() == "errors") {
									p.sentinels[g] = true
								}
							}
							// the stored value may itself be a global address
							if g2, ok := st.Val.(*ssa.Global); ok {
								p.mutGlobals[g2] = true
							}
							continue
						}
					}
					if u, ok := in.(*ssa.UnOp); ok {
						if _, ok := u.X.(*ssa.Global); ok {
							continue // plain load
						}
					}
					for _, op := range in.Operands(nil) {
						if op == nil || *op == nil {
							continue
						}
						if g, ok := (*op).(*ssa.Global); ok {
							p.mutGlobals[g] = true // address escapes or partial access
						}
					}
				}
			}
			for _, af := range fn.AnonFuncs {
				visit(af)
			}
		}
		for _, fn := range fns {
			visit(fn)
		}
	}
}

func isStdErrPkg(path string) bool { return path == "errors" || path == "io" }

// constGlobalValue returns a fixed symbolic value for globals never written after init.
func (vc *VC) constGlobalValue(g *ssa.Global) (Term, bool) {
	p := vc.P
	p.scanGlobals()
	if g.Pkg == nil || p.mutGlobals[g] {
		return Term{}, false
	}
	if !strings.HasPrefix(g.Pkg.Pkg.Path(), p.ModPath) && !isStdErrPkg(g.Pkg.Pkg.Path()) {
		return Term{}, false
	}
	if t, ok := vc.gvals[g]; ok {
		return t, true
	}
	et := g.Type().Underlying().(*types.Pointer).Elem()
	if _, isArr := et.Underlying().(*types.Array); isArr {
		return Term{}, false
	}
	name := "gv_" + sanitize(g.Pkg.Pkg.Name()+"_"+g.Name())
	srt := vc.tt.sort(et)
	// declared in the preamble region: must precede every use
	vc.cmd(fmt.Sprintf("(declare-const %s %s)", name, srt))
	t := Term{name, srt}
	vc.assume(True, vc.tt.wf(et, t, Term{"alloc0", SInt}))
	if p.sentinels[g] && srt == SIface {
		vc.assume(True, Ne(ITag(t), IntLit(0)))
		for og, ot := range vc.gvals {
			if p.sentinels[og] && ot.Sort == SIface {
				vc.assume(True, Ne(t, ot))
			}
		}
	}
	vc.gvals[g] = t
	return t, true
}
