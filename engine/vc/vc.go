package vc

import (
	"fmt"
	"go/token"
	"go/types"
	"sort"
	"strings"

	"gocv/spec"

	"golang.org/x/tools/go/packages"
	"golang.org/x/tools/go/ssa"
)

// Prog is the loaded program plus all contracts.
type Prog struct {
	Fset    *token.FileSet
	Pkgs    []*packages.Package
	SSA     *ssa.Program
	Specs   map[string]*spec.FuncSpec // pkgpath::name
	FnSpecs map[string]*spec.FuncSpec
	Macros  map[string]*spec.Macro
	GlobalInvs map[string][]*spec.Clause // package path -> assumed package invariants
	ModPath string

	mutGlobals map[*ssa.Global]bool // globals written outside init
	sentinels  map[*ssa.Global]bool // error globals initialised by errors.New-like calls
	scanned    bool
}

// Obligation is one proof goal.
type Obligation struct {
	Name      string
	Kind      string
	Props     []string
	Guard     Term
	Cond      Term
	Pos       int // number of commands that precede it
	Src       string
	Where     string
	Clause    *spec.Clause // the contract clause (ensures obligations)
	RefNames  []string     // fnspec parameter names when the clause comes from a refined fnspec
	ExpectSat bool // cover / vacuity probes
	NoAssume  bool // do not assume in later obligations
	AssumeIdx int  // index of the command that assumes it afterwards (-1: none)
	ExtraCmds []string
}

// VC is the verification condition of one function.
type VC struct {
	P         *Prog
	Fn        *ssa.Function
	Spec      *spec.FuncSpec
	sortDecls []string
	cmds      []string
	Obls      []*Obligation
	Notes     []string // abstractions / unsupported constructs hit
	Assumed   []string // assumed (trusted) contracts used
	Callees   []string // contracted callees used
	tt        *typeTab
	nfresh    int
	globals   map[*ssa.Global]int
	strLits   map[string]string
	heapDecl  map[string]bool
	counts    map[string]int
	gvals     map[*ssa.Global]Term
	nframes   int
	closures  map[string]*closureInfo // function-value term -> the closure it was made from
	Fatal     error
	ModelVars []string
	curProps  []string
	safeProps []string
	noSafety  bool
	typedPtrs bool
	wfHeap    bool
	reveal    map[string]bool
	opq       map[string]*opqInfo
	hoisted   map[string]Term
	namedInv  bool
	mapCardOn bool
	splitInfo string
	entryEnv  *Env
	sums      map[string][]*sumInst
	frameProps []string
	sumCache  map[string]*sumInst
	winNames  map[string]string // ground array windows already named
}

func Key(pkg, name string) string { return pkg + "::" + name }

// closureInfo records the provenance of a function value created by MakeClosure
// (or a plain function constant), so that a call through that very value is a static call.
type closureInfo struct {
	fn   *ssa.Function
	free []Term
}

func FuncKey(fn *ssa.Function) string {
	pkg := ""
	if fn.Pkg != nil {
		pkg = fn.Pkg.Pkg.Path()
	} else if fn.Parent() != nil && fn.Parent().Pkg != nil {
		pkg = fn.Parent().Pkg.Pkg.Path()
	} else if fn.Signature.Recv() != nil {
		// method of a type in another package (wrapper)
		if n := namedOf(fn.Signature.Recv().Type()); n != nil && n.Obj().Pkg() != nil {
			pkg = n.Obj().Pkg().Path()
		}
	}
	var from *types.Package
	if fn.Pkg != nil {
		from = fn.Pkg.Pkg
	} else if fn.Parent() != nil && fn.Parent().Pkg != nil {
		from = fn.Parent().Pkg.Pkg
	}
	name := fn.RelString(from)
	if from == nil {
		// strip package qualification from (*pkg/path.T).M
		name = stripQual(name)
	}
	return Key(pkg, name)
}

func stripQual(name string) string {
	// "(*a/b/c.T).M" -> "(*T).M" ; "(a/b/c.T).M" -> "(T).M"
	if !strings.HasPrefix(name, "(") {
		if i := strings.LastIndex(name, "/"); i >= 0 {
			name = name[i+1:]
		}
		if i := strings.Index(name, "."); i >= 0 {
			return name[i+1:]
		}
		return name
	}
	end := strings.Index(name, ")")
	inner := name[1:end]
	star := ""
	if strings.HasPrefix(inner, "*") {
		star = "*"
		inner = inner[1:]
	}
	if i := strings.LastIndex(inner, "."); i >= 0 {
		inner = inner[i+1:]
	}
	return "(" + star + inner + ")" + name[end+1:]
}

func namedOf(t types.Type) *types.Named {
	if p, ok := t.(*types.Pointer); ok {
		t = p.Elem()
	}
	n, _ := t.(*types.Named)
	return n
}

func (vc *VC) cmd(s string) { vc.cmds = append(vc.cmds, s) }

func (vc *VC) fresh(prefix string) string {
	vc.nfresh++
	return fmt.Sprintf("%s_%d", sanitize(prefix), vc.nfresh)
}

func (vc *VC) note(f string, a ...interface{}) {
	s := fmt.Sprintf(f, a...)
	for _, n := range vc.Notes {
		if n == s {
			return
		}
	}
	vc.Notes = append(vc.Notes, s)
}

// declare a fresh constant of the given sort.
func (vc *VC) declare(prefix, sort string) Term {
	n := vc.fresh(prefix)
	vc.cmd(fmt.Sprintf("(declare-const %s %s)", n, sort))
	return Term{n, sort}
}

// define introduces a named abbreviation for t.
func (vc *VC) define(prefix string, t Term) Term {
	if len(t.S) < 24 && !strings.Contains(t.S, "(") {
		return t
	}
	if _, ok := isLit(t); ok {
		return t
	}
	n := vc.fresh(prefix)
	vc.cmd(fmt.Sprintf("(define-fun %s () %s %s)", n, t.Sort, t.S))
	registerCtor(n, t.S)
	return Term{n, t.Sort}
}

func (vc *VC) assume(guard, fact Term) {
	f := Implies(guard, fact)
	if f.S == "true" {
		return
	}
	vc.cmd("(assert " + f.S + ")")
}

func (vc *VC) oblige(kind string, props []string, guard, cond Term, src, where string) *Obligation {
	if cond.S == "true" || guard.S == "false" {
		return nil
	}
	n := vc.counts[kind]
	vc.counts[kind] = n + 1
	name := fmt.Sprintf("%s/%s#%d", vc.fnLabel(), kind, n)
	o := &Obligation{Name: name, Kind: kind, Props: props, Guard: guard, Cond: cond, Pos: len(vc.cmds), Src: src, Where: where}
	vc.Obls = append(vc.Obls, o)
	// later commands may rely on it (assert-then-assume)
	o.AssumeIdx = len(vc.cmds)
	vc.cmd(fmt.Sprintf("(assert %s) ; assumed-after %s", Implies(guard, cond).S, name))
	return o
}

func (vc *VC) fnLabel() string {
	pkg := "?"
	if vc.Fn.Pkg != nil {
		pkg = vc.Fn.Pkg.Pkg.Name()
	} else if vc.Fn.Parent() != nil && vc.Fn.Parent().Pkg != nil {
		pkg = vc.Fn.Parent().Pkg.Pkg.Name()
	}
	_, name := splitKey(FuncKey(vc.Fn))
	return pkg + "." + name + vc.splitInfo
}

func splitKey(k string) (string, string) {
	i := strings.Index(k, "::")
	return k[:i], k[i+2:]
}

// ---- state ----

type base struct {
	id    string
	cond  Term
	a, b  *base
	alloc string // allocation frontier the leaf heaps of this base are well formed for ("" : unknown)
}

type State struct {
	H     map[string]Term
	Alloc Term
	Base  *base
}

func (s *State) clone() *State {
	n := &State{H: map[string]Term{}, Alloc: s.Alloc, Base: s.Base}
	for k, v := range s.H {
		n.H[k] = v
	}
	return n
}

func heapKeySort(key string) string {
	switch {
	case strings.HasPrefix(key, "MK:"):
		p := strings.SplitN(key[3:], "|", 2)
		return ArraySort(SInt, ArraySort(p[0], p[1]))
	case strings.HasPrefix(key, "MH:"):
		return ArraySort(SInt, ArraySort(key[3:], SBool))
	case key == "ML":
		return ArraySort(SInt, SInt)
	case strings.HasPrefix(key, "GV:"):
		// ghost: the set of keys a map range loop has produced so far ("GV:<keysort>:<n>")
		p := strings.SplitN(key[3:], ":", 2)
		return ArraySort(p[0], SBool)
	}
	return heapSort(key)
}

func (vc *VC) baseHeap(b *base, key string) Term {
	srt := heapKeySort(key)
	if b.a == nil {
		name := "H" + b.id + "_" + sanitize(key)
		if !vc.heapDecl[name] {
			vc.heapDecl[name] = true
			vc.cmd(fmt.Sprintf("(declare-const %s %s)", name, srt))
			if b.alloc != "" {
				vc.heapWF(Term{name, srt}, key, b.alloc)
			}
			if vc.mapCardOn && strings.HasPrefix(key, "MH:") {
				vc.mapCard(Term{name, srt}, key, vc.baseHeap(b, "ML"), "")
			}
		}
		return Term{name, srt}
	}
	x := vc.baseHeap(b.a, key)
	y := vc.baseHeap(b.b, key)
	return Ite(b.cond, x, y)
}

func (vc *VC) heap(s *State, key string) Term {
	if t, ok := s.H[key]; ok {
		return t
	}
	t := vc.baseHeap(s.Base, key)
	return t
}

func (vc *VC) setHeap(s *State, key string, t Term) {
	s.H[key] = vc.define("H"+sanitize(key), t)
}

func (vc *VC) newBase() *base {
	vc.nfresh++
	return &base{id: fmt.Sprint(vc.nfresh)}
}

// havocAll forgets everything about memory; the frontier may only grow.
func (vc *VC) havocAll(s *State, guard Term) {
	old := s.Alloc
	s.H = map[string]Term{}
	s.Base = vc.newBase()
	s.Alloc = vc.declare("alloc", SInt)
	s.Base.alloc = s.Alloc.S
	vc.assume(True, Ge(s.Alloc, old))
}

// merge joins states under mutually exclusive conditions.
func (vc *VC) merge(conds []Term, sts []*State) *State {
	if len(sts) == 1 {
		return sts[0].clone()
	}
	res := sts[len(sts)-1].clone()
	for i := len(sts) - 2; i >= 0; i-- {
		a := sts[i]
		c := conds[i]
		keys := map[string]bool{}
		for k := range a.H {
			keys[k] = true
		}
		for k := range res.H {
			keys[k] = true
		}
		nb := res.Base
		if a.Base != res.Base {
			nb = &base{cond: c, a: a.Base, b: res.Base}
		}
		nh := map[string]Term{}
		ks := make([]string, 0, len(keys))
		for k := range keys {
			ks = append(ks, k)
		}
		sort.Strings(ks)
		for _, k := range ks {
			x := vc.heap(a, k)
			y := vc.heap(res, k)
			if x.S == y.S {
				nh[k] = x
			} else {
				nh[k] = vc.define("H"+sanitize(k), Ite(c, x, y))
			}
		}
		res = &State{H: nh, Alloc: vc.define("alloc", Ite(c, a.Alloc, res.Alloc)), Base: nb}
	}
	return res
}

// ---- memory access ----

func (vc *VC) loadCell(s *State, kind string, obj, off Term) Term {
	h := vc.heap(s, kind)
	return Select(Select(h, obj), off)
}

func (vc *VC) storeCell(s *State, kind string, obj, off, v Term) {
	h := vc.heap(s, kind)
	vc.setHeap(s, kind, Store(h, obj, Store(Select(h, obj), off, v)))
}

// load reads a value of type t at (obj, off).
func (vc *VC) load(s *State, t types.Type, obj, off Term) Term {
	switch u := t.Underlying().(type) {
	case *types.Struct:
		var fs []Term
		for i := 0; i < u.NumFields(); i++ {
			fs = append(fs, vc.load(s, u.Field(i).Type(), obj, Add(off, IntLit(vc.tt.fieldOff(u, i)))))
		}
		return vc.tt.mkStruct(t, fs)
	case *types.Array:
		srt := vc.tt.sort(t)
		if u.Len() > 64 {
			vc.note("load of large array value %s abstracted", t)
			return vc.declare("arrval", srt)
		}
		c := vc.tt.cells(u.Elem())
		if c == 1 && u.Len() >= arrvalMin {
			// a long scalar array is read as one value: window(inner, off), whose cells are given by
			// a quantified axiom instead of a chain of N stores.  Equal windows are then equal
			// by congruence, and cell-level facts are instantiated only where a cell is selected.
			k := vc.tt.kind(u.Elem())
			es := kindSort(k)
			fn := fmt.Sprintf("arrwin_%s_%d", sanitize(k), u.Len())
			as := ArraySort(SInt, es)
			if !vc.heapDecl[fn] {
				vc.heapDecl[fn] = true
				vc.cmd(fmt.Sprintf("(declare-fun %s (%s Int) %s)", fn, as, as))
			}
			h := vc.heap(s, k)
			w := Term{fmt.Sprintf("(%s %s %s)", fn, Select(h, obj).S, off.S), srt}
			if !strings.Contains(w.S, "q_") {
				// cell contents of a ground window (quantifying over the array argument itself
				// sends the solvers into model-based instantiation over array sorts).  The window
				// gets a name, because heap terms may contain ite, which patterns must not.
				if name, ok := vc.winNames[w.S]; ok {
					return Term{name, srt}
				}
				if vc.winNames == nil {
					vc.winNames = map[string]string{}
				}
				nm := vc.declare("win", srt)
				vc.winNames[w.S] = nm.S
				vc.cmd(fmt.Sprintf("(assert (= %s %s))", nm.S, w.S))
				z := vc.tt.zero(u.Elem())
				vc.nfresh++
				i := fmt.Sprintf("wi_%d", vc.nfresh)
				vc.cmd(fmt.Sprintf("(assert (forall ((%s Int)) (! (= (select %s %s) (ite (and (<= 0 %s) (< %s %d)) (select %s (+ %s %s)) %s)) :pattern ((select %s %s)))))",
					i, nm.S, i, i, i, u.Len(), Select(h, obj).S, off.S, i, z.S, nm.S, i))
				return nm
			}
			return w
		}
		arr := vc.tt.zero(t)
		for i := int64(0); i < u.Len(); i++ {
			arr = Store(arr, IntLit(i), vc.load(s, u.Elem(), obj, Add(off, IntLit(i*c))))
		}
		return arr
	}
	v := vc.loadCell(s, vc.tt.kind(t), obj, off)
	v.Sort = vc.tt.sort(t)
	return v
}

func (vc *VC) store(s *State, t types.Type, obj, off, v Term) {
	switch u := t.Underlying().(type) {
	case *types.Struct:
		for i := 0; i < u.NumFields(); i++ {
			vc.store(s, u.Field(i).Type(), obj, Add(off, IntLit(vc.tt.fieldOff(u, i))), vc.tt.fieldSel(t, i, v))
		}
		return
	case *types.Array:
		if u.Len() > 64 {
			vc.note("store of large array value %s: object havocked", t)
			acc := map[string]bool{}
			vc.tt.kinds(t, acc)
			for k := range acc {
				h := vc.heap(s, k)
				fr := vc.declare("hv", ArraySort(SInt, kindSort(k)))
				vc.setHeap(s, k, Store(h, obj, fr))
			}
			return
		}
		c := vc.tt.cells(u.Elem())
		for i := int64(0); i < u.Len(); i++ {
			vc.store(s, u.Elem(), obj, Add(off, IntLit(i*c)), Select(v, IntLit(i)))
		}
		return
	}
	vc.storeCell(s, vc.tt.kind(t), obj, off, v)
}

// allocObj allocates a fresh zeroed object able to hold type t (any number of them).
func (vc *VC) allocObj(s *State, t types.Type) Term {
	obj := vc.define("obj", Add(s.Alloc, IntLit(1)))
	s.Alloc = obj
	acc := map[string]bool{}
	vc.tt.kinds(t, acc)
	ks := make([]string, 0, len(acc))
	for k := range acc {
		ks = append(ks, k)
	}
	sort.Strings(ks)
	for _, k := range ks {
		h := vc.heap(s, k)
		vc.setHeap(s, k, Store(h, obj, vc.zeroArray(k)))
	}
	return obj
}

// global returns the object id of a package-level variable.
func (vc *VC) globalObj(g *ssa.Global) Term {
	id, ok := vc.globals[g]
	if !ok {
		id = len(vc.globals) + 1
		vc.globals[g] = id
	}
	return IntLit(int64(id))
}

const maxGlobals = 4096 // object ids 1..maxGlobals are reserved for package-level variables

func (vc *VC) strLit(v string) Term {
	if v == "" {
		return Term{"emptystr", SStr}
	}
	if n, ok := vc.strLits[v]; ok {
		return Term{n, SStr}
	}
	n := vc.fresh("strlit")
	vc.cmd(fmt.Sprintf("(declare-const %s Str) ; %q", n, trunc(v, 40)))
	vc.cmd(fmt.Sprintf("(assert (= (slen_ %s) %d))", n, len(v)))
	if len(v) <= 8 {
		for i := 0; i < len(v); i++ {
			vc.cmd(fmt.Sprintf("(assert (= (sbyte %s %d) %d))", n, i, v[i]))
		}
	}
	var others []string
	for _, o := range vc.strLits {
		others = append(others, o)
	}
	sort.Strings(others) // deterministic query text (map order would reorder these assertions from run to run)
	for _, o := range others {
		vc.cmd(fmt.Sprintf("(assert (not (= %s %s)))", n, o))
	}
	if len(v) > 0 {
		vc.cmd(fmt.Sprintf("(assert (not (= %s emptystr)))", n))
	}
	vc.strLits[v] = n
	return Term{n, SStr}
}

func trunc(s string, n int) string {
	if len(s) > n {
		return s[:n] + "..."
	}
	return s
}

// heapWF: every reference stored in a (freshly introduced) heap component is well formed for the
// allocation frontier al -- the memory of a Go program never holds a pointer, slice or interface
// payload that refers to an object not yet allocated.  Without this a reference read inside a
// quantified spec expression (where no load instruction supplies the type invariant) could denote
// an object that a later allocation "creates".
func (vc *VC) heapWF(h Term, key string, al string) {
	if !vc.wfHeap {
		return // opt-in per function (`wfheap`): the axioms slow down proofs that do not need them
	}
	var wf, inner string
	switch {
	case strings.HasPrefix(key, "P_"):
		wf, inner = "wfptr", "(select (select "+h.S+" o) j)"
	case strings.HasPrefix(key, "S_"):
		wf, inner = "wfslice", "(select (select "+h.S+" o) j)"
	case strings.HasPrefix(key, "F_"):
		wf, inner = "wfiface", "(select (select "+h.S+" o) j)"
	case strings.HasPrefix(key, "MK:"):
		p := strings.SplitN(key[3:], "|", 2)
		switch p[1] {
		case SPtr:
			wf = "wfptr"
		case SSlice:
			wf = "wfslice"
		case SIface:
			wf = "wfiface"
		default:
			return
		}
		vc.cmd(fmt.Sprintf("(assert (forall ((o Int) (j %s)) (! (%s (select (select %s o) j) %s) :pattern ((select (select %s o) j)))))", p[0], wf, h.S, al, h.S))
		return
	default:
		return
	}
	vc.cmd(fmt.Sprintf("(assert (forall ((o Int) (j Int)) (! (%s %s %s) :pattern (%s))))", wf, inner, al, inner))
}

// mapCard (contract flag `mapcard`): a map's length is the number of its keys.  The model keeps the
// length (ML) and the key set (MH) as separate heap components, updated consistently by insert and
// delete; wherever a fresh key set is introduced (entry state, loop head, call havoc) this states
// the two instances of "length = cardinality" that `len(m) == 0` / `len(m) == 1` tests rely on:
// a present key means length >= 1, two different present keys mean length >= 2.  mh is the key-set
// component (all objects) or, with obj non-empty, one object's row of it.
func (vc *VC) mapCard(mh Term, key string, ml Term, obj string) {
	if !vc.mapCardOn || !strings.HasPrefix(key, "MH:") {
		return
	}
	ks := key[3:]
	if obj != "" {
		vc.cmd(fmt.Sprintf("(assert (forall ((k %s)) (! (=> (select %s k) (>= (select %s %s) 1)) :pattern ((select %s k)))))", ks, mh.S, ml.S, obj, mh.S))
		vc.cmd(fmt.Sprintf("(assert (forall ((k1 %s) (k2 %s)) (! (=> (and (select %s k1) (select %s k2) (not (= k1 k2))) (>= (select %s %s) 2)) :pattern ((select %s k1) (select %s k2)))))", ks, ks, mh.S, mh.S, ml.S, obj, mh.S, mh.S))
		return
	}
	vc.cmd(fmt.Sprintf("(assert (forall ((o Int) (k %s)) (! (=> (select (select %s o) k) (>= (select %s o) 1)) :pattern ((select (select %s o) k)))))", ks, mh.S, ml.S, mh.S))
	vc.cmd(fmt.Sprintf("(assert (forall ((o Int) (k1 %s) (k2 %s)) (! (=> (and (select (select %s o) k1) (select (select %s o) k2) (not (= k1 k2))) (>= (select %s o) 2)) :pattern ((select (select %s o) k1) (select (select %s o) k2)))))", ks, ks, mh.S, mh.S, ml.S, mh.S, mh.S))
}

// rowWF: heapWF for one havocked object (a row of a heap component): every reference stored in it
// is well formed for the allocation frontier al.
func (vc *VC) rowWF(row Term, key string, al string) {
	if !vc.wfHeap {
		return
	}
	var wf, ksort string
	switch {
	case strings.HasPrefix(key, "P_"):
		wf, ksort = "wfptr", SInt
	case strings.HasPrefix(key, "S_"):
		wf, ksort = "wfslice", SInt
	case strings.HasPrefix(key, "F_"):
		wf, ksort = "wfiface", SInt
	case strings.HasPrefix(key, "MK:"):
		p := strings.SplitN(key[3:], "|", 2)
		ksort = p[0]
		switch p[1] {
		case SPtr:
			wf = "wfptr"
		case SSlice:
			wf = "wfslice"
		case SIface:
			wf = "wfiface"
		default:
			return
		}
	default:
		return
	}
	vc.cmd(fmt.Sprintf("(assert (forall ((j %s)) (! (%s (select %s j) %s) :pattern ((select %s j)))))", ksort, wf, row.S, al, row.S))
}
