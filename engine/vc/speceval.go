package vc

import (
	"fmt"
	"go/constant"
	"go/token"
	"go/types"
	"math/big"
	"regexp"
	"sort"
	"strings"

	"gocv/spec"

	"golang.org/x/tools/go/ssa"
)

// SV is a spec value: a term, its Go type (nil: mathematical) and, if it
// denotes memory, its location.
type SV struct {
	T   Term
	Ty  types.Type
	Loc *Loc
}

type Loc struct {
	Obj, Off Term
	Ty       types.Type
}

// Env evaluates spec expressions.
type Env struct {
	vc     *VC
	names  map[string]SV
	st     *State
	old    *State
	pkg    *types.Package
	fr     *frame    // for resolving local variable names (may be nil)
	li     *loopInfo // loop context (may be nil)
	phis   map[*ssa.Phi]Term
	inOld  bool
	depth  int
	atBlock *ssa.BasicBlock
	bound   map[string]bool // quantifier / sum variables in scope
	noHoist bool            // evaluating inside a definition body: emit no commands
}

func (e *Env) with(name string, v SV) *Env {
	n := *e
	n.names = map[string]SV{}
	for k, x := range e.names {
		n.names[k] = x
	}
	n.names[name] = v
	// variables bound by a quantifier or a sum shadow everything, loop phis included
	n.bound = map[string]bool{name: true}
	for k := range e.bound {
		n.bound[k] = true
	}
	return &n
}

func (e *Env) evalBool(x spec.Expr) (Term, error) {
	sv, err := e.eval(x)
	if err != nil {
		return Term{}, err
	}
	if sv.T.Sort != SBool {
		return Term{}, fmt.Errorf("expected boolean, got %s in %s", sv.T.Sort, x)
	}
	return sv.T, nil
}

var specConsts = map[string]string{
	"MaxInt64": "9223372036854775807", "MinInt64": "-9223372036854775808",
	"MaxInt32": "2147483647", "MinInt32": "-2147483648",
	"MaxInt16": "32767", "MinInt16": "-32768", "MaxInt8": "127", "MinInt8": "-128",
	"MaxUint64": "18446744073709551615", "MaxUint32": "4294967295", "MaxUint16": "65535", "MaxUint8": "255",
	"MaxInt": "9223372036854775807", "MinInt": "-9223372036854775808", "MaxUint": "18446744073709551615",
}

func (e *Env) state() *State {
	if e.inOld && e.old != nil {
		return e.old
	}
	return e.st
}

func (e *Env) lookupIdent(name string) (SV, bool, error) {
	vc := e.vc
	// inside a loop a reassigned variable (header phi) shadows the parameter of the same name;
	// the entry value of parameter p is always available as p0
	if e.bound[name] {
		return e.names[name], true, nil
	}
	if e.li != nil && e.phis != nil && e.fr != nil {
		for _, in := range e.li.header.Instrs {
			ph, ok := in.(*ssa.Phi)
			if !ok {
				break
			}
			if ph.Comment == name {
				if t, ok := e.phis[ph]; ok {
					return SV{T: t, Ty: ph.Type()}, true, nil
				}
			}
		}
	}
	if v, ok := e.names[name]; ok {
		return v, true, nil
	}
	if strings.HasSuffix(name, "0") {
		if v, ok := e.names[strings.TrimSuffix(name, "0")]; ok {
			return v, true, nil
		}
	}
	if c, ok := specConsts[name]; ok {
		v, _ := new(big.Int).SetString(c, 10)
		return SV{T: BigLit(v)}, true, nil
	}
	// local variable of the function under verification
	if e.fr != nil {
		if sv, ok := e.fr.resolveLocal(name, e); ok {
			return sv, true, nil
		}
	}
	// package-level object
	if e.pkg != nil {
		if obj := e.pkg.Scope().Lookup(name); obj != nil {
			return e.objValue(obj)
		}
	}
	_ = vc
	return SV{}, false, nil
}

func (e *Env) objValue(obj types.Object) (SV, bool, error) {
	vc := e.vc
	switch o := obj.(type) {
	case *types.Const:
		return e.constValue(o.Val(), o.Type())
	case *types.Var:
		// package-level variable
		if pkg := vc.P.SSA.Package(o.Pkg()); pkg != nil {
			if g, ok := pkg.Members[o.Name()].(*ssa.Global); ok {
				if t, ok := vc.constGlobalValue(g); ok {
					return SV{T: t, Ty: o.Type()}, true, nil
				}
				obj := vc.globalObj(g)
				loc := &Loc{obj, IntLit(0), o.Type()}
				if _, isArr := o.Type().Underlying().(*types.Array); isArr {
					return SV{Ty: o.Type(), Loc: loc}, true, nil
				}
				return SV{T: vc.load(e.state(), o.Type(), obj, IntLit(0)), Ty: o.Type(), Loc: loc}, true, nil
			}
		}
	}
	return SV{}, false, nil
}

func (e *Env) constValue(v constant.Value, t types.Type) (SV, bool, error) {
	switch v.Kind() {
	case constant.Int:
		b, _ := new(big.Int).SetString(v.ExactString(), 10)
		return SV{T: BigLit(b), Ty: nil}, true, nil
	case constant.Bool:
		return SV{T: BoolLit(constant.BoolVal(v))}, true, nil
	case constant.String:
		return SV{T: e.vc.strLit(constant.StringVal(v)), Ty: types.Typ[types.String]}, true, nil
	}
	return SV{}, false, fmt.Errorf("unsupported constant kind")
}

// resolveLocal finds the SSA value of a source-level local at the current context.
func (f *frame) resolveLocal(name string, e *Env) (SV, bool) {
	vc := f.vc
	// loop header phis by comment
	if e.li != nil && e.phis != nil {
		for _, in := range e.li.header.Instrs {
			ph, ok := in.(*ssa.Phi)
			if !ok {
				break
			}
			if ph.Comment == name {
				if t, ok := e.phis[ph]; ok {
					return SV{T: t, Ty: ph.Type()}, true
				}
			}
		}
	}
	// rangeoverN: the slice (or map) that the range loop with ordinal N iterates over -- also when
	// it is the unnamed result of a call
	if strings.HasPrefix(name, "rangeover") && len(name) > len("rangeover") {
		var n int
		if _, err := fmt.Sscanf(name[len("rangeover"):], "%d", &n); err == nil {
			for _, li := range f.loops {
				if li.ordinal != n {
					continue
				}
				for _, in := range li.header.Instrs {
					switch x := in.(type) {
					case *ssa.BinOp:
						// idx+1 < len(X)
						if x.Op != token.LSS {
							continue
						}
						if c, ok := x.Y.(*ssa.Call); ok {
							if bi, ok := c.Call.Value.(*ssa.Builtin); ok && bi.Name() == "len" && len(c.Call.Args) == 1 {
								if _, ok := c.Call.Args[0].Type().Underlying().(*types.Slice); ok {
									if t, ok := f.vals[c.Call.Args[0]]; ok {
										return SV{T: t, Ty: c.Call.Args[0].Type()}, true
									}
								}
							}
						}
					case *ssa.Next:
						if r, ok := x.Iter.(*ssa.Range); ok {
							if t, ok := f.vals[r.X]; ok {
								return SV{T: t, Ty: r.X.Type()}, true
							}
						}
					}
				}
			}
			return SV{}, false
		}
	}
	// rangeindexN: the index of the range loop with ordinal N (an enclosing loop, or the loop itself)
	if strings.HasPrefix(name, "rangeindex") && len(name) > len("rangeindex") {
		var n int
		if _, err := fmt.Sscanf(name[len("rangeindex"):], "%d", &n); err == nil {
			for _, li := range f.loops {
				if li.ordinal != n {
					continue
				}
				for _, in := range li.header.Instrs {
					ph, ok := in.(*ssa.Phi)
					if !ok {
						break
					}
					if ph.Comment != "rangeindex" {
						continue
					}
					if e.li == li && e.phis != nil {
						if t, ok := e.phis[ph]; ok {
							return SV{T: t, Ty: ph.Type()}, true
						}
					}
					if t, ok := f.vals[ph]; ok {
						return SV{T: t, Ty: ph.Type()}, true
					}
				}
			}
			return SV{}, false
		}
	}
	refs := f.dbg[name]
	if len(refs) == 0 {
		return SV{}, false
	}
	// choose a reference whose defining block dominates the context block
	var ctx *ssa.BasicBlock
	if e.li != nil {
		ctx = e.li.header
	} else if e.atBlock != nil {
		ctx = e.atBlock
	}
	var best *dbgRef
	for i := range refs {
		r := &refs[i]
		var defBlock *ssa.BasicBlock
		if in, ok := r.v.(ssa.Instruction); ok {
			defBlock = in.Block()
		}
		if _, isPhi := r.v.(*ssa.Phi); isPhi && e.li != nil && defBlock == e.li.header {
			continue // handled above
		}
		if ctx != nil && defBlock != nil {
			if defBlock == ctx {
				// defined in the header itself (after phis): not available at loop head
				if e.li != nil {
					continue
				}
			} else if !defBlock.Dominates(ctx) {
				continue
			}
			if e.li != nil && e.li.blocks[defBlock] {
				continue
			}
		}
		if ctx == nil {
			// function exit context: only address-taken locals have one well-defined value there
			if _, isAlloc := r.v.(*ssa.Alloc); !isAlloc {
				continue
			}
		}
		best = r
		if r.isAddr {
			break
		}
	}
	if best == nil {
		return SV{}, false
	}
	t := f.val(best.v)
	if best.isAddr {
		et := best.v.Type().Underlying().(*types.Pointer).Elem()
		loc := &Loc{PObj(t), POff(t), et}
		return SV{T: vc.load(e.state(), et, loc.Obj, loc.Off), Ty: et, Loc: loc}, true
	}
	return SV{T: t, Ty: best.v.Type()}, true
}

func derefType(t types.Type) (types.Type, bool) {
	if t == nil {
		return nil, false
	}
	p, ok := t.Underlying().(*types.Pointer)
	if !ok {
		return nil, false
	}
	return p.Elem(), true
}

func (e *Env) eval(x spec.Expr) (SV, error) {
	vc := e.vc
	tt := vc.tt
	switch n := x.(type) {
	case *spec.IntLit:
		return SV{T: BigLit(n.Val)}, nil
	case *spec.BoolLit:
		return SV{T: BoolLit(n.Val)}, nil
	case *spec.StrLit:
		return SV{T: vc.strLit(n.Val), Ty: types.Typ[types.String]}, nil
	case *spec.NilLit:
		return SV{T: Term{"nil", "Nil"}}, nil
	case *spec.Ident:
		v, ok, err := e.lookupIdent(n.Name)
		if err != nil {
			return SV{}, err
		}
		if !ok {
			return SV{}, fmt.Errorf("unknown identifier %q", n.Name)
		}
		if v.Loc != nil { // reload in the current state (arrays stay locations: indexed lazily)
			if _, isArr := v.Loc.Ty.Underlying().(*types.Array); !isArr {
				v.T = vc.load(e.state(), v.Loc.Ty, v.Loc.Obj, v.Loc.Off)
			}
		}
		return v, nil
	case *spec.Unary:
		switch n.Op {
		case "!":
			t, err := e.evalBool(n.X)
			if err != nil {
				return SV{}, err
			}
			return SV{T: Not(t)}, nil
		case "-":
			v, err := e.eval(n.X)
			if err != nil {
				return SV{}, err
			}
			return SV{T: Neg(v.T)}, nil
		case "*":
			v, err := e.eval(n.X)
			if err != nil {
				return SV{}, err
			}
			et, ok := derefType(v.Ty)
			if !ok {
				return SV{}, fmt.Errorf("cannot dereference %s", n.X)
			}
			loc := &Loc{PObj(v.T), POff(v.T), et}
			return SV{T: vc.load(e.state(), et, loc.Obj, loc.Off), Ty: et, Loc: loc}, nil
		case "&":
			v, err := e.eval(n.X)
			if err != nil {
				return SV{}, err
			}
			if v.Loc == nil {
				return SV{}, fmt.Errorf("cannot take address of %s", n.X)
			}
			return SV{T: MkPtr(v.Loc.Obj, v.Loc.Off), Ty: types.NewPointer(v.Loc.Ty)}, nil
		}
	case *spec.Binary:
		return e.evalBinary(n)
	case *spec.Cond:
		c, err := e.evalBool(n.C)
		if err != nil {
			return SV{}, err
		}
		a, err := e.eval(n.A)
		if err != nil {
			return SV{}, err
		}
		b, err := e.eval(n.B)
		if err != nil {
			return SV{}, err
		}
		a, b = coerceNil(a, b)
		return SV{T: Ite(c, a.T, b.T), Ty: a.Ty}, nil
	case *spec.Sel:
		return e.evalSel(n)
	case *spec.Index:
		return e.evalIndex(n)
	case *spec.SliceE:
		v, err := e.eval(n.X)
		if err != nil {
			return SV{}, err
		}
		if v.T.Sort != SSlice {
			return SV{}, fmt.Errorf("slice expression on non-slice %s", n.X)
		}
		lo := IntLit(0)
		hi := SLen(v.T)
		if n.Lo != nil {
			l, err := e.eval(n.Lo)
			if err != nil {
				return SV{}, err
			}
			lo = l.T
		}
		if n.Hi != nil {
			h, err := e.eval(n.Hi)
			if err != nil {
				return SV{}, err
			}
			hi = h.T
		}
		c := int64(1)
		if st, ok := v.Ty.Underlying().(*types.Slice); ok {
			c = tt.cells(st.Elem())
		}
		return SV{T: MkSlice(SObj(v.T), Add(SOff(v.T), Mul(lo, IntLit(c))), Sub(hi, lo), Sub(SCap(v.T), lo)), Ty: v.Ty}, nil
	case *spec.Quant:
		return e.evalQuant(n)
	case *spec.Sum:
		return e.evalSum(n)
	case *spec.Call:
		return e.evalCall(n)
	}
	return SV{}, fmt.Errorf("unsupported spec expression %s", x)
}

func coerceNil(a, b SV) (SV, SV) {
	nilOf := func(s string) Term {
		switch s {
		case SPtr:
			return NilPtr
		case SSlice:
			return NilSlice
		case SIface:
			return NilIface
		case SFn:
			return Term{"0", SFn}
		}
		return Term{"0", s}
	}
	if a.T.Sort == "Nil" && b.T.Sort != "Nil" {
		a = SV{T: nilOf(b.T.Sort), Ty: b.Ty}
	}
	if b.T.Sort == "Nil" && a.T.Sort != "Nil" {
		b = SV{T: nilOf(a.T.Sort), Ty: a.Ty}
	}
	return a, b
}

func (e *Env) evalBinary(n *spec.Binary) (SV, error) {
	switch n.Op {
	case "&&", "||", "==>", "<==>":
		a, err := e.evalBool(n.X)
		if err != nil {
			return SV{}, err
		}
		// short-circuit on a statically false left side (the right side may not even be well-typed,
		// e.g. as(x, T) for a type that is not loaded)
		if a.S == "false" && n.Op == "==>" {
			return SV{T: True}, nil
		}
		if a.S == "false" && n.Op == "&&" {
			return SV{T: False}, nil
		}
		b, err := e.evalBool(n.Y)
		if err != nil {
			return SV{}, err
		}
		switch n.Op {
		case "&&":
			return SV{T: And(a, b)}, nil
		case "||":
			return SV{T: Or(a, b)}, nil
		case "==>":
			return SV{T: Implies(a, b)}, nil
		default:
			return SV{T: Eq(a, b)}, nil
		}
	}
	a, err := e.eval(n.X)
	if err != nil {
		return SV{}, err
	}
	b, err := e.eval(n.Y)
	if err != nil {
		return SV{}, err
	}
	switch n.Op {
	case "==", "!=":
		a, b = coerceNil(a, b)
		var t Term
		switch {
		case a.T.Sort == SSlice && (isNilTerm(b.T) || isNilTerm(a.T)):
			if isNilTerm(b.T) {
				t = Eq(SObj(a.T), IntLit(0))
			} else {
				t = Eq(SObj(b.T), IntLit(0))
			}
		case a.T.Sort == SIface && isNilTerm(b.T):
			t = Eq(ITag(a.T), IntLit(0))
		case a.T.Sort == SIface && isNilTerm(a.T):
			t = Eq(ITag(b.T), IntLit(0))
		default:
			if a.T.Sort != b.T.Sort {
				return SV{}, fmt.Errorf("comparing %s with %s in %s", a.T.Sort, b.T.Sort, n)
			}
			t = Eq(a.T, b.T)
		}
		if n.Op == "!=" {
			t = Not(t)
		}
		return SV{T: t}, nil
	case "<", "<=", ">", ">=":
		if a.T.Sort == SStr {
			lt := func(p, q Term) Term { return Term{app("strlt", p, q), SBool} }
			switch n.Op {
			case "<":
				return SV{T: lt(a.T, b.T)}, nil
			case ">":
				return SV{T: lt(b.T, a.T)}, nil
			case "<=":
				return SV{T: Not(lt(b.T, a.T))}, nil
			default:
				return SV{T: Not(lt(a.T, b.T))}, nil
			}
		}
		if a.T.Sort != SInt || b.T.Sort != SInt {
			return SV{}, fmt.Errorf("ordering on non-integers in %s", n)
		}
		switch n.Op {
		case "<":
			return SV{T: Lt(a.T, b.T)}, nil
		case "<=":
			return SV{T: Le(a.T, b.T)}, nil
		case ">":
			return SV{T: Gt(a.T, b.T)}, nil
		default:
			return SV{T: Ge(a.T, b.T)}, nil
		}
	}
	if a.T.Sort != SInt || b.T.Sort != SInt {
		return SV{}, fmt.Errorf("arithmetic on non-integers (%s, %s) in %s", a.T.Sort, b.T.Sort, n)
	}
	switch n.Op {
	case "+":
		return SV{T: Add(a.T, b.T)}, nil
	case "-":
		return SV{T: Sub(a.T, b.T)}, nil
	case "*":
		return SV{T: Mul(a.T, b.T)}, nil
	case "/":
		return SV{T: Term{app("tdiv", a.T, b.T), SInt}}, nil
	case "%":
		return SV{T: Term{app("tmod", a.T, b.T), SInt}}, nil
	case "<<":
		if k, ok := isLit(b.T); ok {
			return SV{T: Mul(a.T, BigLit(pow2Big(k.Int64())))}, nil
		}
		return SV{T: Mul(a.T, Term{app("pow2", b.T), SInt})}, nil
	case ">>":
		if k, ok := isLit(b.T); ok {
			return SV{T: Term{app("div", a.T, BigLit(pow2Big(k.Int64()))), SInt}}, nil
		}
		return SV{T: Term{app("div", a.T, Term{app("pow2", b.T), SInt}), SInt}}, nil
	case "&":
		return SV{T: Term{app("bitand", a.T, b.T), SInt}}, nil
	case "|":
		return SV{T: Term{app("bitor", a.T, b.T), SInt}}, nil
	case "^":
		return SV{T: Term{app("bitxor", a.T, b.T), SInt}}, nil
	}
	return SV{}, fmt.Errorf("unsupported operator %s", n.Op)
}

func isNilTerm(t Term) bool {
	return t.S == "nilptr" || t.S == "nilslice" || t.S == "niliface" || t.Sort == "Nil"
}

func (e *Env) evalSel(n *spec.Sel) (SV, error) {
	vc := e.vc
	tt := vc.tt
	// qualified identifier pkg.Name ?
	if id, ok := n.X.(*spec.Ident); ok {
		if _, isName := e.names[id.Name]; !isName {
			if sv, ok := e.qualified(id.Name, n.Name); ok {
				return sv, nil
			}
		}
	}
	v, err := e.eval(n.X)
	if err != nil {
		return SV{}, err
	}
	if v.Ty == nil {
		return SV{}, fmt.Errorf("selector .%s on untyped value %s", n.Name, n.X)
	}
	obj, path, _ := types.LookupFieldOrMethod(v.Ty, true, e.pkg, n.Name)
	if obj == nil {
		// contracts may name unexported fields of a type from another package (assumed specs do)
		if nt := namedOf(v.Ty); nt != nil && nt.Obj().Pkg() != nil {
			obj, path, _ = types.LookupFieldOrMethod(v.Ty, true, nt.Obj().Pkg(), n.Name)
		}
	}
	fld, ok := obj.(*types.Var)
	if !ok || !fld.IsField() {
		return SV{}, fmt.Errorf("no field %s in %s", n.Name, v.Ty)
	}
	cur := v
	for _, idx := range path {
		t := cur.Ty
		if et, isPtr := derefType(t); isPtr {
			// pointer to struct: becomes a location
			cur = SV{Ty: et, Loc: &Loc{PObj(cur.T), POff(cur.T), et}}
			t = et
		}
		su, ok := t.Underlying().(*types.Struct)
		if !ok {
			return SV{}, fmt.Errorf("selector on non-struct %s", t)
		}
		ft := su.Field(idx).Type()
		if cur.Loc != nil {
			loc := &Loc{cur.Loc.Obj, Add(cur.Loc.Off, IntLit(tt.fieldOff(su, idx))), ft}
			cur = SV{Ty: ft, Loc: loc}
			cur.T = vc.load(e.state(), ft, loc.Obj, loc.Off)
		} else {
			cur = SV{T: tt.fieldSel(t, idx, cur.T), Ty: ft}
		}
	}
	return cur, nil
}

func (e *Env) qualified(pkgName, name string) (SV, bool) {
	// find an imported package with that name among the program's packages
	for _, p := range e.vc.P.SSA.AllPackages() {
		if p.Pkg.Name() == pkgName {
			if obj := p.Pkg.Scope().Lookup(name); obj != nil {
				// prefer packages imported by e.pkg
				if e.pkg != nil && !imports(e.pkg, p.Pkg) && p.Pkg != e.pkg {
					continue
				}
				if sv, ok, _ := e.objValue(obj); ok {
					return sv, true
				}
			}
		}
	}
	return SV{}, false
}

func imports(a, b *types.Package) bool {
	for _, i := range a.Imports() {
		if i == b {
			return true
		}
	}
	return false
}

func (e *Env) evalIndex(n *spec.Index) (SV, error) {
	vc := e.vc
	tt := vc.tt
	v, err := e.eval(n.X)
	if err != nil {
		return SV{}, err
	}
	i, err := e.eval(n.I)
	if err != nil {
		return SV{}, err
	}
	if v.Ty == nil {
		return SV{}, fmt.Errorf("index on untyped value %s", n.X)
	}
	t := v.Ty
	if et, ok := derefType(t); ok {
		if _, isArr := et.Underlying().(*types.Array); isArr {
			v = SV{Ty: et, Loc: &Loc{PObj(v.T), POff(v.T), et}}
			t = et
		}
	}
	switch u := t.Underlying().(type) {
	case *types.Slice:
		c := tt.cells(u.Elem())
		loc := &Loc{SObj(v.T), Add(SOff(v.T), Mul(i.T, IntLit(c))), u.Elem()}
		return SV{T: vc.load(e.state(), u.Elem(), loc.Obj, loc.Off), Ty: u.Elem(), Loc: loc}, nil
	case *types.Array:
		if v.Loc != nil {
			c := tt.cells(u.Elem())
			loc := &Loc{v.Loc.Obj, Add(v.Loc.Off, Mul(i.T, IntLit(c))), u.Elem()}
			return SV{T: vc.load(e.state(), u.Elem(), loc.Obj, loc.Off), Ty: u.Elem(), Loc: loc}, nil
		}
		r := Select(v.T, i.T)
		r.Sort = tt.sort(u.Elem())
		return SV{T: r, Ty: u.Elem()}, nil
	case *types.Map:
		// Go semantics: a missing key (or a nil map) yields the zero value
		it := i.T
		r := vc.mapGet(e.state(), u, v.T, it)
		r.Sort = tt.sort(u.Elem())
		r = Ite(vc.mapHas(e.state(), u, v.T, it), r, tt.zero(u.Elem()))
		return SV{T: r, Ty: u.Elem()}, nil
	case *types.Basic:
		if u.Info()&types.IsString != 0 {
			return SV{T: Term{app("sbyte", v.T, i.T), SInt}}, nil
		}
	}
	return SV{}, fmt.Errorf("cannot index %s (type %s)", n.X, t)
}

var (
	qvarRe     = regexp.MustCompile(`\bq_(\w+?)_\d+\b`)
	qbinderRe  = regexp.MustCompile(`\(\((q_\w+?_\d+) `)
	outerVarRe = regexp.MustCompile(`\bq_\w+_\d+\b|SUMIDX|opq_`)
)

// hoistFormula (contract flag `namedinv`) names a closed quantified formula that a spec macro expands
// to -- an invariant such as indexed(o), typically mentioned as hypothesis and as conclusion of
// several clauses -- by a declared boolean, once per state.  Two mentions of the same invariant in
// the same state are then the same propositional atom, instead of two alpha-equivalent quantified
// formulas that the solver has to prove equivalent by skolemisation and instantiation.
func (e *Env) hoistFormula(r SV) SV {
	vc := e.vc
	if !vc.namedInv || e.noHoist || r.T.Sort != SBool || len(r.T.S) < 200 || !(strings.Contains(r.T.S, "(forall ") || strings.Contains(r.T.S, "(exists ")) {
		return r
	}
	// closed: every bound-variable name left after removing the formula's own binders would be
	// bound outside (a macro called under a quantifier with the bound variable as argument)
	own := map[string]bool{}
	for _, m := range qbinderRe.FindAllStringSubmatch(r.T.S, -1) {
		own[m[1]] = true
	}
	rest := qvarRe.ReplaceAllStringFunc(r.T.S, func(v string) string {
		if own[v] {
			return "OWN"
		}
		return v
	})
	if outerVarRe.MatchString(rest) {
		return r
	}
	key := qvarRe.ReplaceAllString(r.T.S, "q_${1}_#")
	if vc.hoisted == nil {
		vc.hoisted = map[string]Term{}
	}
	if c, ok := vc.hoisted[key]; ok {
		r.T = c
		return r
	}
	c := vc.declare("inv", SBool)
	vc.cmd(fmt.Sprintf("(assert (= %s %s))", c.S, r.T.S))
	vc.hoisted[key] = c
	r.T = c
	return r
}

func (e *Env) evalQuant(n *spec.Quant) (SV, error) {
	vc := e.vc
	vc.nfresh++
	vn := fmt.Sprintf("q_%s_%d", sanitize(n.Var), vc.nfresh)
	if c, ok := n.Lo.(*spec.Call); ok && c.Fun == "type" && n.Hi == nil {
		// forall p in type("*pkg.T") :: body -- the bound variable ranges over all values of that Go type
		if len(c.Args) != 1 {
			return SV{}, fmt.Errorf("type() takes one type name")
		}
		sl, ok := c.Args[0].(*spec.StrLit)
		if !ok {
			return SV{}, fmt.Errorf("type() takes a string literal")
		}
		ty, err := e.lookupType(sl.Val)
		if err != nil {
			return SV{}, err
		}
		ks := vc.tt.sort(ty)
		kv := Term{vn, ks}
		inner := e.with(n.Var, SV{T: kv, Ty: ty})
		body, err := inner.evalBool(n.Body)
		if err != nil {
			return SV{}, err
		}
		if n.Forall {
			return SV{T: Term{fmt.Sprintf("(forall ((%s %s)) %s)", vn, ks, body.S), SBool}}, nil
		}
		return SV{T: Term{fmt.Sprintf("(exists ((%s %s)) %s)", vn, ks, body.S), SBool}}, nil
	}
	if c, ok := n.Lo.(*spec.Call); ok && c.Fun == "elems" && n.Hi == nil {
		// forall x in elems(s) :: P(x) -- the bound variable is an element of the slice s.  The SMT
		// variable is the absolute cell index (offset of s .. offset + length), so the element is
		// `row[m]` with no arithmetic in it: any cell read of that array instantiates the clause,
		// whereas `s[k]` = `row[off + k]` is matched only by index terms of that exact shape.
		if len(c.Args) != 1 {
			return SV{}, fmt.Errorf("elems() takes one slice")
		}
		// elems(old(s)): the elements s had in the old state (slice value and cells both read there)
		senv := e
		sarg := c.Args[0]
		if oc, ok := sarg.(*spec.Call); ok && oc.Fun == "old" && len(oc.Args) == 1 {
			o := *e
			o.inOld = true
			senv = &o
			sarg = oc.Args[0]
		}
		sv, err := senv.eval(sarg)
		if err != nil {
			return SV{}, err
		}
		st, ok := sv.Ty.Underlying().(*types.Slice)
		if !ok {
			return SV{}, fmt.Errorf("elems() of a non-slice")
		}
		if vc.tt.cells(st.Elem()) != 1 {
			return SV{}, fmt.Errorf("elems(): element type %s occupies more than one cell", st.Elem())
		}
		m := Term{vn, SInt}
		obj := SObj(sv.T)
		cell := vc.load(senv.state(), st.Elem(), obj, m)
		inner := e.with(n.Var, SV{T: cell, Ty: st.Elem(), Loc: &Loc{obj, m, st.Elem()}})
		body, err := inner.evalBool(n.Body)
		if err != nil {
			return SV{}, err
		}
		rng := And(Le(SOff(sv.T), m), Lt(m, Add(SOff(sv.T), SLen(sv.T))))
		pat := ""
		if !strings.Contains(cell.S, "(ite ") && !strings.Contains(cell.S, "(let ") && strings.HasPrefix(cell.S, "(select ") {
			pat = cell.S
		}
		if n.Forall {
			if pat != "" {
				return SV{T: Term{fmt.Sprintf("(forall ((%s Int)) (! %s :pattern (%s)))", vn, Implies(rng, body).S, pat), SBool}}, nil
			}
			return SV{T: Term{fmt.Sprintf("(forall ((%s Int)) %s)", vn, Implies(rng, body).S), SBool}}, nil
		}
		return SV{T: Term{fmt.Sprintf("(exists ((%s Int)) %s)", vn, And(rng, body).S), SBool}}, nil
	}
	if c, ok := n.Lo.(*spec.Call); ok && c.Fun == "keys" && n.Hi == nil {
		// the bound variable ranges over the keys present in a map (sort of the key type)
		if len(c.Args) != 1 {
			return SV{}, fmt.Errorf("keys() takes one map")
		}
		// keys(old(m)): the keys the map held in the old state
		menv := e
		marg := c.Args[0]
		if oc, ok := marg.(*spec.Call); ok && oc.Fun == "old" && len(oc.Args) == 1 {
			o := *e
			o.inOld = true
			menv = &o
			marg = oc.Args[0]
		}
		m, err := menv.eval(marg)
		if err != nil {
			return SV{}, err
		}
		mt, ok := m.Ty.Underlying().(*types.Map)
		if !ok {
			return SV{}, fmt.Errorf("keys() of a non-map")
		}
		ks := vc.tt.sort(mt.Key())
		kv := Term{vn, ks}
		inner := e.with(n.Var, SV{T: kv, Ty: mt.Key()})
		body, err := inner.evalBool(n.Body)
		if err != nil {
			return SV{}, err
		}
		rng := vc.mapHas(menv.state(), mt, m.T, kv)
		if n.Forall {
			return SV{T: Term{fmt.Sprintf("(forall ((%s %s)) %s)", vn, ks, Implies(rng, body).S), SBool}}, nil
		}
		return SV{T: Term{fmt.Sprintf("(exists ((%s %s)) %s)", vn, ks, And(rng, body).S), SBool}}, nil
	}
	inner := e.with(n.Var, SV{T: Term{vn, SInt}})
	body, err := inner.evalBool(n.Body)
	if err != nil {
		return SV{}, err
	}
	rng := True
	if n.Lo != nil {
		lo, err := e.eval(n.Lo)
		if err != nil {
			return SV{}, err
		}
		hi, err := e.eval(n.Hi)
		if err != nil {
			return SV{}, err
		}
		rng = And(Le(lo.T, Term{vn, SInt}), Lt(Term{vn, SInt}, hi.T))
	}
	if n.Forall {
		return SV{T: Term{fmt.Sprintf("(forall ((%s Int)) %s)", vn, Implies(rng, body).S), SBool}}, nil
	}
	return SV{T: Term{fmt.Sprintf("(exists ((%s Int)) %s)", vn, And(rng, body).S), SBool}}, nil
}

func (e *Env) evalCall(n *spec.Call) (SV, error) {
	vc := e.vc
	arg := func(i int) (SV, error) {
		if i >= len(n.Args) {
			return SV{}, fmt.Errorf("%s: missing argument %d", n.Fun, i)
		}
		return e.eval(n.Args[i])
	}
	switch n.Fun {
	case "old":
		o := *e
		o.inOld = true
		return o.eval(n.Args[0])
	case "now":
		// now(x) inside old(...): x is evaluated in the current state again (e.g. an index computed
		// from the new state used to read the old contents: old(s[now(i)]))
		o := *e
		o.inOld = false
		return o.eval(n.Args[0])
	case "len", "cap":
		v, err := arg(0)
		if err != nil {
			return SV{}, err
		}
		switch v.T.Sort {
		case SSlice:
			if n.Fun == "len" {
				return SV{T: SLen(v.T)}, nil
			}
			return SV{T: SCap(v.T)}, nil
		case SStr:
			return SV{T: Term{app("slen_", v.T), SInt}}, nil
		case SPtr:
			if v.Ty != nil {
				if _, ok := v.Ty.Underlying().(*types.Map); ok {
					return SV{T: vc.mapLen(e.state(), v.T)}, nil
				}
				if et, ok := derefType(v.Ty); ok {
					if at, ok := et.Underlying().(*types.Array); ok {
						return SV{T: IntLit(at.Len())}, nil
					}
				}
			}
		}
		if v.Ty != nil {
			if at, ok := v.Ty.Underlying().(*types.Array); ok {
				return SV{T: IntLit(at.Len())}, nil
			}
		}
		return SV{}, fmt.Errorf("len of %s", n.Args[0])
	case "min", "max":
		a, err := arg(0)
		if err != nil {
			return SV{}, err
		}
		b, err := arg(1)
		if err != nil {
			return SV{}, err
		}
		return SV{T: Term{app("i"+n.Fun, a.T, b.T), SInt}}, nil
	case "tdiv", "tmod", "pow2", "bitand", "bitor", "bitxor":
		var ts []Term
		for i := range n.Args {
			a, err := arg(i)
			if err != nil {
				return SV{}, err
			}
			ts = append(ts, a.T)
		}
		return SV{T: Term{app(n.Fun, ts...), SInt}}, nil
	case "has":
		m, err := arg(0)
		if err != nil {
			return SV{}, err
		}
		k, err := arg(1)
		if err != nil {
			return SV{}, err
		}
		mt, ok := m.Ty.Underlying().(*types.Map)
		if !ok {
			return SV{}, fmt.Errorf("has() on non-map")
		}
		return SV{T: vc.mapHas(e.state(), mt, m.T, k.T)}, nil
	case "fresh":
		// allocated after the old state
		v, err := arg(0)
		if err != nil {
			return SV{}, err
		}
		if e.old == nil {
			return SV{}, fmt.Errorf("fresh() needs an old state")
		}
		switch v.T.Sort {
		case SPtr:
			return SV{T: Gt(PObj(v.T), e.old.Alloc)}, nil
		case SSlice:
			return SV{T: Gt(SObj(v.T), e.old.Alloc)}, nil
		case SIface:
			return SV{T: Gt(PObj(IPl(v.T)), e.old.Alloc)}, nil
		}
		return SV{}, fmt.Errorf("fresh() of %s", v.T.Sort)
	case "str":
		// string(b) for a byte slice b, as the program's conversion computes it in this state
		v, err := arg(0)
		if err != nil {
			return SV{}, err
		}
		if v.T.Sort != SSlice {
			return SV{}, fmt.Errorf("str() of %s", v.T.Sort)
		}
		return SV{T: vc.strOf(e.state(), v.T), Ty: types.Typ[types.String]}, nil
	case "wf":
		// the type invariant of a value (allocated-or-nil references, ranges, 0 <= len <= cap)
		v, err := arg(0)
		if err != nil {
			return SV{}, err
		}
		if v.Ty == nil {
			return SV{}, fmt.Errorf("wf() of untyped value")
		}
		return SV{T: vc.tt.wf(v.Ty, v.T, e.state().Alloc)}, nil
	case "visited":
		// visited(N, k): has the map range loop with ordinal N already produced key k?
		lit, ok := n.Args[0].(*spec.IntLit)
		if !ok || e.fr == nil {
			return SV{}, fmt.Errorf("visited(N, k) needs a literal loop ordinal and a function context")
		}
		kv, err := arg(1)
		if err != nil {
			return SV{}, err
		}
		for _, li := range e.fr.loops {
			if int64(li.ordinal) != lit.Val.Int64() {
				continue
			}
			for _, in := range li.header.Instrs {
				if nx, ok := in.(*ssa.Next); ok {
					if ri := e.fr.rangeOf[nx.Iter]; ri != nil && ri.gv != "" {
						return SV{T: Select(vc.heap(e.state(), ri.gv), kv.T)}, nil
					}
				}
			}
		}
		return SV{}, fmt.Errorf("visited: loop %s is not a map range", lit.Val)
	case "concat":
		// concat(a, b): Go string concatenation a + b
		a, err := arg(0)
		if err != nil {
			return SV{}, err
		}
		b, err := arg(1)
		if err != nil {
			return SV{}, err
		}
		if a.T.Sort != SStr || b.T.Sort != SStr {
			return SV{}, fmt.Errorf("concat() of non-strings")
		}
		return SV{T: Term{app("sconcat", a.T, b.T), SStr}, Ty: types.Typ[types.String]}, nil
	case "ufslice":
		// ufslice("ElemType", "name", args...): an uninterpreted function returning a slice of that
		// element type (e.g. the list an abstract store holds for a key)
		if len(n.Args) < 2 {
			return SV{}, fmt.Errorf("ufslice needs an element type and a name")
		}
		ts, ok1 := n.Args[0].(*spec.StrLit)
		ns, ok2 := n.Args[1].(*spec.StrLit)
		if !ok1 || !ok2 {
			return SV{}, fmt.Errorf("ufslice needs string literals for the element type and the name")
		}
		et, err := e.lookupType(ts.Val)
		if err != nil {
			return SV{}, err
		}
		var as []Term
		var sorts []string
		for i := 2; i < len(n.Args); i++ {
			a, err := arg(i)
			if err != nil {
				return SV{}, err
			}
			as = append(as, a.T)
			sorts = append(sorts, a.T.Sort)
		}
		key := "ufs_" + sanitize(ns.Val)
		if !vc.heapDecl["uf:"+key] {
			vc.heapDecl["uf:"+key] = true
			vc.cmd(fmt.Sprintf("(declare-fun %s (%s) %s)", key, strings.Join(sorts, " "), SSlice))
		}
		return SV{T: Term{app(key, as...), SSlice}, Ty: types.NewSlice(et)}, nil
	case "inst":
		// inst(p): p is nil or the start of an instance of its struct type (see tyStart)
		v, err := arg(0)
		if err != nil {
			return SV{}, err
		}
		if v.Ty == nil {
			return SV{}, fmt.Errorf("inst() of untyped value")
		}
		// ... and allocated in the current state (heap contents read in a quantified spec
		// expression carry no type invariant of their own)
		al := Or(Eq(PObj(v.T), IntLit(0)), And(Ge(PObj(v.T), IntLit(1)), Le(PObj(v.T), e.state().Alloc)))
		ts, ok := vc.tt.tyStart(v.Ty, v.T)
		if !ok {
			return SV{T: al}, nil
		}
		return SV{T: And(al, ts)}, nil
	case "allocated":
		v, err := arg(0)
		if err != nil {
			return SV{}, err
		}
		switch v.T.Sort {
		case SPtr:
			return SV{T: And(Ge(PObj(v.T), IntLit(1)), Le(PObj(v.T), e.state().Alloc))}, nil
		case SSlice:
			return SV{T: And(Ge(SObj(v.T), IntLit(1)), Le(SObj(v.T), e.state().Alloc))}, nil
		}
		return SV{}, fmt.Errorf("allocated() of %s", v.T.Sort)
	case "obj":
		v, err := arg(0)
		if err != nil {
			return SV{}, err
		}
		switch v.T.Sort {
		case SPtr:
			return SV{T: PObj(v.T)}, nil
		case SSlice:
			return SV{T: SObj(v.T)}, nil
		case SIface:
			return SV{T: PObj(IPl(v.T))}, nil
		}
		return SV{}, fmt.Errorf("obj() of %s", v.T.Sort)
	case "at":
		// at(x): the absolute cell index of an addressable spec value -- for a variable bound by
		// `elems(s)` its position in the array behind s (at(x) - off(s) is the element's index)
		v, err := arg(0)
		if err != nil {
			return SV{}, err
		}
		if v.Loc == nil {
			return SV{}, fmt.Errorf("at() of a value that has no location")
		}
		return SV{T: v.Loc.Off}, nil
	case "off":
		v, err := arg(0)
		if err != nil {
			return SV{}, err
		}
		switch v.T.Sort {
		case SPtr:
			return SV{T: POff(v.T)}, nil
		case SSlice:
			return SV{T: SOff(v.T)}, nil
		}
		return SV{}, fmt.Errorf("off() of %s", v.T.Sort)
	case "int", "int8", "int16", "int32", "int64", "uint", "uint8", "uint16", "uint32", "uint64", "byte":
		// spec integers are mathematical: conversions are the identity
		return arg(0)
	case "wrap8", "wrap16", "wrap32", "wrap64", "wrapu8", "wrapu16", "wrapu32", "wrapu64":
		v, err := arg(0)
		if err != nil {
			return SV{}, err
		}
		kinds := map[string]types.BasicKind{"wrap8": types.Int8, "wrap16": types.Int16, "wrap32": types.Int32, "wrap64": types.Int64,
			"wrapu8": types.Uint8, "wrapu16": types.Uint16, "wrapu32": types.Uint32, "wrapu64": types.Uint64}
		return SV{T: wrapMod(types.Typ[kinds[n.Fun]], v.T)}, nil
	case "iserr":
		// iserr(err, Sentinel): err is exactly that sentinel value
		a, err := arg(0)
		if err != nil {
			return SV{}, err
		}
		b, err := arg(1)
		if err != nil {
			return SV{}, err
		}
		return SV{T: Eq(a.T, b.T)}, nil
	case "typeis":
		// typeis(x, "pkg.T") dynamic type test on an interface value
		v, err := arg(0)
		if err != nil {
			return SV{}, err
		}
		s, ok := n.Args[1].(*spec.StrLit)
		if !ok {
			return SV{}, fmt.Errorf("typeis needs a string literal type")
		}
		t, err := e.lookupType(s.Val)
		if err != nil {
			// a type of a package that is not part of the loaded program: no value here can have
			// it.  Anything else (a misspelt or wrongly scoped name) is a contract error, not `false`.
			if i := strings.LastIndex(s.Val, "."); i >= 0 && !e.pkgLoaded(strings.TrimPrefix(s.Val[:i], "*")) {
				return SV{T: False}, nil
			}
			return SV{}, fmt.Errorf("typeis: %v", err)
		}
		return SV{T: Eq(ITag(v.T), IntLit(int64(vc.tt.tag(t))))}, nil
	case "as":
		// as(x, "pkg.*T"): payload of interface x as that (pointer) type
		v, err := arg(0)
		if err != nil {
			return SV{}, err
		}
		s, ok := n.Args[1].(*spec.StrLit)
		if !ok {
			return SV{}, fmt.Errorf("as needs a string literal type")
		}
		t, err := e.lookupType(s.Val)
		if err != nil {
			return SV{}, err
		}
		if vc.tt.sort(t) == SPtr {
			return SV{T: IPl(v.T), Ty: t}, nil
		}
		pl := IPl(v.T)
		return SV{T: vc.load(e.state(), t, PObj(pl), POff(pl)), Ty: t, Loc: &Loc{PObj(pl), POff(pl), t}}, nil
	}
	// macro
	if m, ok := vc.P.Macros[n.Fun]; ok {
		if len(m.Params) != len(n.Args) {
			return SV{}, fmt.Errorf("macro %s expects %d arguments", n.Fun, len(m.Params))
		}
		if m.Opaque {
			return e.evalOpaque(m, n)
		}
		if e.depth > 20 {
			return SV{}, fmt.Errorf("macro recursion too deep at %s", n.Fun)
		}
		inner := *e
		inner.depth++
		if mp := e.macroPkg(m); mp != nil {
			inner.pkg = mp // type and constant names in the body resolve in the defining package
		}
		inner.names = map[string]SV{}
		for k, v := range e.names {
			inner.names[k] = v
		}
		inner.bound = map[string]bool{}
		for k := range e.bound {
			inner.bound[k] = true
		}
		for i, p := range m.Params {
			a, err := e.eval(n.Args[i])
			if err != nil {
				return SV{}, err
			}
			inner.names[p] = a
			inner.bound[p] = true // macro parameters shadow loop variables of the same name
		}
		r, err := inner.eval(m.Body)
		if err != nil {
			return r, err
		}
		return e.hoistFormula(r), nil
	}
	// uninterpreted pure function: name with arguments
	if strings.HasPrefix(n.Fun, "uf_") {
		var ts []Term
		var sorts []string
		for i := range n.Args {
			a, err := arg(i)
			if err != nil {
				return SV{}, err
			}
			ts = append(ts, a.T)
			sorts = append(sorts, a.T.Sort)
		}
		rs := SInt
		var rty types.Type
		if strings.HasPrefix(n.Fun, "uf_b_") {
			rs = SBool
		}
		if strings.HasPrefix(n.Fun, "uf_t_") {
			// uf_t_<pkg.Type>_<name>: uninterpreted function returning a value of that Go type
			rest := strings.TrimPrefix(n.Fun, "uf_t_")
			k := strings.LastIndex(rest, "_")
			if k < 0 {
				return SV{}, fmt.Errorf("uf_t_<type>_<name> expected, got %s", n.Fun)
			}
			t, err := e.lookupType(rest[:k])
			if err != nil {
				return SV{}, err
			}
			rty = t
			rs = vc.tt.sort(t)
		}
		key := sanitize(n.Fun)
		if !vc.heapDecl["uf:"+key] {
			vc.heapDecl["uf:"+key] = true
			vc.cmd(fmt.Sprintf("(declare-fun %s (%s) %s)", key, strings.Join(sorts, " "), rs))
		}
		if len(ts) == 0 {
			return SV{T: Term{key, rs}, Ty: rty}, nil // a constant: no application syntax
		}
		return SV{T: Term{app(key, ts...), rs}, Ty: rty}, nil
	}
	return SV{}, fmt.Errorf("unknown spec function %q", n.Fun)
}

// lookupType resolves "pkgname.T" or "*pkgname.T" or "T".
func (e *Env) lookupType(s string) (types.Type, error) {
	ptr := false
	if strings.HasPrefix(s, "*") {
		ptr = true
		s = s[1:]
	}
	var obj types.Object
	if i := strings.LastIndex(s, "."); i >= 0 {
		pn, tn := s[:i], s[i+1:]
		for _, p := range e.vc.P.SSA.AllPackages() {
			if p.Pkg.Name() == pn || p.Pkg.Path() == pn {
				if o := p.Pkg.Scope().Lookup(tn); o != nil {
					obj = o
					if e.pkg == nil || imports(e.pkg, p.Pkg) || p.Pkg == e.pkg {
						break
					}
				}
			}
		}
	} else if e.pkg != nil {
		obj = e.pkg.Scope().Lookup(s)
	}
	if obj == nil {
		obj = types.Universe.Lookup(s) // string, bool, uint64, ...
	}
	tn, ok := obj.(*types.TypeName)
	if !ok {
		return nil, fmt.Errorf("unknown type %q", s)
	}
	var t types.Type = tn.Type()
	if ptr {
		t = types.NewPointer(t)
	}
	return t, nil
}

// ---- sums ----

type sumInst struct {
	fn   string
	lo   Term
	hi   Term
	body string // term text with placeholder ph
	ph   string
	disc string // memory locations of the identifiers the sum ranges over ("" if none)
}

func (s *sumInst) at(i string) string { return strings.ReplaceAll(s.body, s.ph, i) }

// evalSum encodes sum(i in lo..hi, body) as a recursive SMT function of the
// upper bound, defined in the current state.  Instances of the same source
// expression evaluated in different states are related by instances of the
// extensionality lemma  (forall i in lo..m: body1(i) == body2(i)) ==> sum1(m) == sum2(m),
// a theorem of the recursive definition (induction on m).
func (e *Env) evalSum(n *spec.Sum) (SV, error) {
	vc := e.vc
	lo, err := e.eval(n.Lo)
	if err != nil {
		return SV{}, err
	}
	hi, err := e.eval(n.Hi)
	if err != nil {
		return SV{}, err
	}
	vc.nfresh++
	ph := fmt.Sprintf("SUMIDX%d_", vc.nfresh)
	mark := len(vc.cmds)
	inner := e.with(n.Var, SV{T: Term{ph, SInt}})
	body, err := inner.eval(n.Body)
	if err != nil {
		return SV{}, err
	}
	if body.T.Sort != SInt {
		return SV{}, fmt.Errorf("sum body must be an integer: %s", n.Body)
	}
	for _, c := range vc.cmds[mark:] {
		if strings.Contains(c, ph) {
			return SV{}, fmt.Errorf("sum body too complex (needs intermediate definitions): %s", n.Body)
		}
	}
	// identical sum (same body over the same state, same bounds) already instantiated: reuse it
	canon := strings.ReplaceAll(body.T.S, ph, "#") + "|" + lo.T.S
	if old, ok := vc.sumCache[canon]; ok {
		if old.hi.S == hi.T.S {
			return SV{T: Term{fmt.Sprintf("(%s %s)", old.fn, hi.T.S), SInt}}, nil
		}
	}
	inst := &sumInst{fn: vc.fresh("sum"), lo: lo.T, hi: hi.T, body: body.T.S, ph: ph}
	vc.sumCache[canon] = inst
	// The partial sums are an uninterpreted function constrained by a few unfoldings of
	// the recursive definition around the upper bound (the true sum satisfies them all,
	// so every model of the real execution is kept): sum(m) = m<=lo ? 0 : sum(m-1)+body(m-1).
	vc.cmd(fmt.Sprintf("(declare-fun %s (Int) Int)", inst.fn))
	for d := 0; d < 4; d++ {
		m := Sub(inst.hi, IntLit(int64(d)))
		m1 := Sub(inst.hi, IntLit(int64(d+1)))
		vc.cmd(fmt.Sprintf("(assert (= (%s %s) (ite (<= %s %s) 0 (+ (%s %s) %s))))", inst.fn, m.S, m.S, inst.lo.S, inst.fn, m1.S, inst.at(m1.S)))
	}
	// non-negativity lemma instance (induction on the bound): all terms >= 0 ==> sum >= 0
	{
		vc.nfresh++
		iv := fmt.Sprintf("si_%d", vc.nfresh)
		vc.cmd(fmt.Sprintf("(assert (=> (forall ((%s Int)) (=> (and (<= %s %s) (< %s %s)) (>= %s 0))) (>= (%s %s) 0))) ; sum non-negativity lemma instance",
			iv, inst.lo.S, iv, iv, inst.hi.S, inst.at(iv), inst.fn, inst.hi.S))
	}
	// Sums of the same shape (same term structure up to the names of heaps and
	// slices) are related by lemma instances; both lemmas are theorems of the
	// recursive definition (induction on the bound), so assuming instances is sound:
	//   extensionality: lo1==lo2 && (forall i in lo..m: body1(i)==body2(i)) ==> sum1(m)==sum2(m)
	//   monotonicity:   lo<=a<=b && (forall i in a..b: body(i)>=0)          ==> sum(a)<=sum(b)
	// key: the source text of the sum plus where its free variables live (so the data-stack sums
	// are linked with each other but not with the alt-stack sums); a coarser key (source text only)
	// links a few recent instances across, e.g. a callee's `sc(stack)` with the caller's sums.
	ast := n.String()
	inst.disc = e.sumDiscriminator(n)
	key := ast + "|" + inst.disc
	prev := vc.sums[key]
	// cross-key links only where one side ranges over a plain value (no memory location to tell
	// the sums apart): a callee's sc(stack) against the caller's sums, a loop's partial sums
	// against the total of the precondition.  Sums over different locations are never linked.
	if all := vc.sums["#"+sumShape(inst.body, ph)]; len(all) > 0 {
		linkable := func(p *sumInst) bool {
			if p.disc != "" && inst.disc != "" {
				return false
			}
			for _, q := range prev {
				if q == p {
					return false
				}
			}
			return true
		}
		if linkable(all[0]) { // the very first sum of this shape (usually the entry-state total) comes first
			prev = append([]*sumInst{all[0]}, prev...)
		}
		extra := 0
		for k := len(all) - 1; k >= 0 && extra < 2; k-- {
			if linkable(all[k]) {
				prev = append(append([]*sumInst{}, prev...), all[k])
				extra++
			}
		}
	}
	vc.sums["#"+sumShape(inst.body, ph)] = append(vc.sums["#"+sumShape(inst.body, ph)], inst)
	own := vc.sums[key]
	start := 0
	if len(prev) > 4 {
		start = len(prev) - 4
	}
	for pi, p := range prev {
		if pi < start && pi != 0 {
			continue // link to the most recent instances and to the first (entry-state) one
		}
		ms := []Term{inst.hi, p.hi}
		if pi >= len(prev)-2 {
			for d := int64(1); d <= 3; d++ { // prefixes: supports in-place updates of the last few elements
				ms = append(ms, Sub(inst.hi, IntLit(d)))
			}
		}
		for _, m := range ms {
			vc.nfresh++
			iv := fmt.Sprintf("si_%d", vc.nfresh)
			hyp := fmt.Sprintf("(and (= %s %s) (forall ((%s Int)) (=> (and (<= %s %s) (< %s %s)) (= %s %s))))",
				inst.lo.S, p.lo.S, iv, inst.lo.S, iv, iv, m.S, inst.at(iv), p.at(iv))
			vc.cmd(fmt.Sprintf("(assert (=> %s (= (%s %s) (%s %s)))) ; sum extensionality lemma instance", hyp, inst.fn, m.S, p.fn, m.S))
		}
		if inst.hi.S != p.hi.S && pi == 0 { // partial sums against the entry-state total
			for _, ab := range [][2]Term{{inst.hi, p.hi}, {p.hi, inst.hi}} {
				for _, s := range []*sumInst{inst, p} {
					vc.nfresh++
					iv := fmt.Sprintf("si_%d", vc.nfresh)
					hyp := fmt.Sprintf("(and (<= %s %s) (<= %s %s) (forall ((%s Int)) (=> (and (<= %s %s) (< %s %s)) (>= %s 0))))",
						s.lo.S, ab[0].S, ab[0].S, ab[1].S, iv, ab[0].S, iv, iv, ab[1].S, s.at(iv))
					vc.cmd(fmt.Sprintf("(assert (=> %s (<= (%s %s) (%s %s)))) ; sum monotonicity lemma instance", hyp, s.fn, ab[0].S, s.fn, ab[1].S))
				}
			}
		}
	}
	vc.sums[key] = append(own, inst)
	return SV{T: Term{fmt.Sprintf("(%s %s)", inst.fn, hi.T.S), SInt}}, nil
}

// sumDiscriminator: the memory locations (offsets) of the identifiers a sum ranges over.
func (e *Env) sumDiscriminator(n *spec.Sum) string {
	var ids []string
	var walk func(x spec.Expr)
	walk = func(x spec.Expr) {
		switch t := x.(type) {
		case *spec.Ident:
			ids = append(ids, t.Name)
		case *spec.Unary:
			walk(t.X)
		case *spec.Binary:
			walk(t.X)
			walk(t.Y)
		case *spec.Cond:
			walk(t.C)
			walk(t.A)
			walk(t.B)
		case *spec.Call:
			for _, a := range t.Args {
				walk(a)
			}
		case *spec.Index:
			walk(t.X)
			walk(t.I)
		case *spec.SliceE:
			walk(t.X)
		case *spec.Sel:
			walk(t.X)
		}
	}
	walk(n.Hi)
	walk(n.Body)
	seen := map[string]bool{}
	var parts []string
	for _, id := range ids {
		if seen[id] || id == n.Var {
			continue
		}
		seen[id] = true
		if sv, ok := e.names[id]; ok && sv.Loc != nil {
			parts = append(parts, id+"@"+sv.Loc.Off.S)
		}
	}
	return strings.Join(parts, ",")
}

// sumShape abstracts a body term to its structure: identifiers that are not
// SMT/prelude function symbols are replaced by "_".
func sumShape(body, ph string) string {
	keep := map[string]bool{"select": true, "store": true, "slen": true, "scap": true, "soff": true, "sobj": true, "pobj": true, "poff": true,
		"imax": true, "imin": true, "ite": true, "and": true, "or": true, "not": true, "mod": true, "div": true, "tdiv": true, "tmod": true,
		"itag": true, "ipl": true, "slen_": true, "sbyte": true, "pow2": true}
	var sb strings.Builder
	i := 0
	for i < len(body) {
		c := body[i]
		if c == '_' || c >= 'a' && c <= 'z' || c >= 'A' && c <= 'Z' {
			j := i
			for j < len(body) && (body[j] == '_' || body[j] == '!' || body[j] >= 'a' && body[j] <= 'z' || body[j] >= 'A' && body[j] <= 'Z' || body[j] >= '0' && body[j] <= '9') {
				j++
			}
			tok := body[i:j]
			switch {
			case tok == ph:
				sb.WriteString("#")
			case keep[tok] || strings.HasPrefix(tok, "St_") || strings.HasPrefix(tok, "mk_"):
				sb.WriteString(tok)
			default:
				sb.WriteString("_")
			}
			i = j
			continue
		}
		sb.WriteByte(c)
		i++
	}
	return sb.String()
}

// ---- opaque spec functions ----
//
// `//@ opaque f(a, b) = body` is a spec function whose applications stay small: f becomes an SMT
// function of its arguments and of the heap components its body reads.  A function under
// verification that says `reveal f` gets the definition (define-fun); every other one sees an
// uninterpreted symbol and can use only what contracts say about f.
type opqInfo struct {
	fn     string
	heaps  []string // heap keys read by the body, sorted
	alloc  bool
	rsort  string
	rty    types.Type
}

var opqHeapRe = regexp.MustCompile(`Hopq_[A-Za-z0-9_]+`)

func (e *Env) evalOpaque(m *spec.Macro, n *spec.Call) (SV, error) {
	vc := e.vc
	var args []SV
	for i := range n.Args {
		a, err := e.eval(n.Args[i])
		if err != nil {
			return SV{}, err
		}
		args = append(args, a)
	}
	if vc.opq == nil {
		vc.opq = map[string]*opqInfo{}
	}
	key := m.Name
	for _, a := range args {
		key += "|" + a.T.Sort
	}
	info := vc.opq[key]
	if info == nil {
		// evaluate the body once over placeholder heaps and placeholder arguments
		st := &State{H: map[string]Term{}, Alloc: Term{"opq_alloc", SInt}, Base: &base{id: "opq"}}
		names := map[string]SV{}
		bound := map[string]bool{}
		var params []string
		for i, p := range m.Params {
			pt := Term{fmt.Sprintf("opq_a%d", i), args[i].T.Sort}
			names[p] = SV{T: pt, Ty: args[i].Ty}
			bound[p] = true
			params = append(params, fmt.Sprintf("(%s %s)", pt.S, pt.Sort))
		}
		ipkg := e.pkg
		if mp := e.macroPkg(m); mp != nil {
			ipkg = mp
		}
		inner := &Env{vc: vc, names: names, st: st, old: st, pkg: ipkg, depth: e.depth + 1, bound: bound, noHoist: true}
		body, err := inner.eval(m.Body)
		if err != nil {
			return SV{}, fmt.Errorf("opaque %s: %v", m.Name, err)
		}
		seen := map[string]bool{}
		for _, h := range opqHeapRe.FindAllString(body.T.S, -1) {
			seen[h] = true
		}
		info = &opqInfo{fn: "opq_" + sanitize(m.Name) + fmt.Sprintf("_%d", len(vc.opq)), rsort: body.T.Sort, rty: body.Ty}
		var hparams, hsorts []string
		// heap keys: recover them from the state the evaluation filled in
		var keys []string
		for k := range st.H {
			keys = append(keys, k)
		}
		for k := range vc.tt.kindSeen {
			keys = append(keys, k)
		}
		sort.Strings(keys)
		done := map[string]bool{}
		for _, k := range keys {
			if done[k] {
				continue
			}
			done[k] = true
			hn := "Hopq_" + sanitize(k)
			if seen[hn] {
				info.heaps = append(info.heaps, k)
				hparams = append(hparams, fmt.Sprintf("(%s %s)", hn, heapKeySort(k)))
				hsorts = append(hsorts, heapKeySort(k))
				delete(seen, hn)
			}
		}
		if len(seen) > 0 {
			return SV{}, fmt.Errorf("opaque %s: cannot attribute heap placeholders %v", m.Name, seen)
		}
		if strings.Contains(body.T.S, "opq_alloc") {
			info.alloc = true
			hparams = append(hparams, "(opq_alloc Int)")
			hsorts = append(hsorts, SInt)
		}
		var asorts []string
		for _, a := range args {
			asorts = append(asorts, a.T.Sort)
		}
		if vc.reveal[m.Name] {
			vc.cmd(fmt.Sprintf("(define-fun %s (%s) %s %s)", info.fn, strings.Join(append(hparams, params...), " "), info.rsort, body.T.S))
		} else {
			vc.cmd(fmt.Sprintf("(declare-fun %s (%s) %s)", info.fn, strings.Join(append(hsorts, asorts...), " "), info.rsort))
		}
		vc.opq[key] = info
	}
	var ts []Term
	for _, k := range info.heaps {
		ts = append(ts, vc.heap(e.state(), k))
	}
	if info.alloc {
		ts = append(ts, e.state().Alloc)
	}
	for _, a := range args {
		ts = append(ts, a.T)
	}
	return SV{T: Term{app(info.fn, ts...), info.rsort}, Ty: info.rty}, nil
}

// pkgLoaded: is a package with this name or import path part of the loaded program?
func (e *Env) pkgLoaded(pn string) bool {
	for _, p := range e.vc.P.SSA.AllPackages() {
		if p.Pkg.Name() == pn || p.Pkg.Path() == pn {
			return true
		}
	}
	return false
}

// macroPkg: the package whose contract file defines the macro (nil: unknown / not loaded).
func (e *Env) macroPkg(m *spec.Macro) *types.Package {
	if m.Pkg == "" {
		return nil
	}
	for _, p := range e.vc.P.SSA.AllPackages() {
		if p.Pkg.Path() == m.Pkg {
			return p.Pkg
		}
	}
	return nil
}
