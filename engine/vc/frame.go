package vc

import (
	"fmt"
	"go/constant"
	"go/token"
	"go/types"
	"math/big"
	"sort"
	"strings"

	"gocv/spec"

	"golang.org/x/tools/go/ssa"
)

type retInfo struct {
	guard Term
	vals  []Term
	st    *State
}

type deferInfo struct {
	instr *ssa.Defer
	flag  Term // Bool: was the defer statement executed
}

type dbgRef struct {
	v      ssa.Value
	isAddr bool
	block  *ssa.BasicBlock
}

type frame struct {
	vc      *VC
	fn      *ssa.Function
	pfx     string
	vals    map[ssa.Value]Term
	tup     map[ssa.Value][]Term
	spec    *spec.FuncSpec
	entry   *State
	top     bool
	rets    []retInfo
	defers  []*deferInfo
	dbg     map[string][]dbgRef // source name -> refs
	reach   map[*ssa.BasicBlock]Term
	out     map[*ssa.BasicBlock]*State
	edge    map[[2]int]Term
	loops   map[*ssa.BasicBlock]*loopInfo
	inLoop  map[*ssa.BasicBlock][]*loopInfo
	depth   int
	dynIdx  map[*ssa.CallCommon]int
	rangeOf map[ssa.Value]*rangeInfo
	panics  []Term // guards under which the function panics explicitly (maypanic)
	allocBudget func(in ssa.Instruction, g Term, cells Term)
	hasFrame  bool
	entryMods []modLoc
}

type rangeInfo struct {
	m    Term
	mt   *types.Map
	isStr bool
	gv   string // ghost heap key of the visited-key set (map ranges)
}

type loopInfo struct {
	header  *ssa.BasicBlock
	blocks  map[*ssa.BasicBlock]bool
	minIdx  int
	ordinal int
	spec    *spec.LoopSpec
	stHead  *State          // state at header after havoc
	phiHead map[*ssa.Phi]Term
	varEntry Term // decreases value at header
	frameKeys []string
	hasVar   bool
	nonFresh map[string]bool // heap kinds the loop may write in objects that existed before the loop
	// appendOnly[k]: header phis (slice variables) such that every write of kind k into a
	// pre-existing object is an in-place append to the current value of one of them
	appendOnly map[string][]*ssa.Phi
}

func (f *frame) name(v ssa.Value) string {
	return f.pfx + sanitize(v.Name())
}

// val returns the SMT term of an SSA value.
func (f *frame) val(v ssa.Value) Term {
	vc := f.vc
	switch x := v.(type) {
	case *ssa.Const:
		return f.constTerm(x)
	case *ssa.Global:
		return MkPtr(vc.globalObj(x), IntLit(0))
	case *ssa.Function:
		return vc.fnValue(x)
	case *ssa.Builtin:
		return Term{"0", SFn}
	}
	if t, ok := f.vals[v]; ok {
		return t
	}
	// value not computed (e.g. from an unsupported instruction): havoc
	vc.note("value %s of %s not modelled: havoc", v.Name(), f.fn.Name())
	t := vc.declare(f.name(v), vc.tt.sort(v.Type()))
	f.vals[v] = t
	return t
}

func (vc *VC) fnValue(fn *ssa.Function) Term {
	// stable positive id per function name
	h := uint32(2166136261)
	for _, c := range []byte(FuncKey(fn)) {
		h = (h ^ uint32(c)) * 16777619
	}
	t := Term{fmt.Sprint(int64(h)%1000000007 + 1), SFn}
	if vc.closures == nil {
		vc.closures = map[string]*closureInfo{}
	}
	if _, ok := vc.closures[t.S]; !ok && len(fn.FreeVars) == 0 {
		vc.closures[t.S] = &closureInfo{fn: fn}
	}
	return t
}

func (f *frame) constTerm(c *ssa.Const) Term {
	vc := f.vc
	t := c.Type()
	if c.Value == nil {
		return vc.tt.zero(t)
	}
	switch u := t.Underlying().(type) {
	case *types.Basic:
		switch {
		case u.Info()&types.IsBoolean != 0:
			return BoolLit(constant.BoolVal(c.Value))
		case u.Info()&types.IsInteger != 0:
			v, _ := new(big.Int).SetString(c.Value.ExactString(), 10)
			if v == nil {
				v = big.NewInt(0)
				if iv, ok := constant.Int64Val(constant.ToInt(c.Value)); ok {
					v.SetInt64(iv)
				}
			}
			return BigLit(v)
		case u.Info()&types.IsString != 0:
			return vc.strLit(constant.StringVal(c.Value))
		case u.Info()&types.IsFloat != 0:
			n := "fconst_" + sanitize(c.Value.ExactString())
			if !vc.heapDecl[n] {
				vc.heapDecl[n] = true
				vc.cmd(fmt.Sprintf("(declare-const %s Flt)", n))
			}
			return Term{n, SReal}
		}
	}
	return vc.tt.zero(t)
}

func (f *frame) set(v ssa.Value, t Term) {
	t.Sort = f.vc.tt.sort(v.Type())
	n := f.name(v)
	f.vc.cmd(fmt.Sprintf("(define-fun %s () %s %s)", n, t.Sort, t.S))
	registerCtor(n, t.S)
	f.vals[v] = Term{n, t.Sort}
}

func (f *frame) setFresh(v ssa.Value, guard Term, al Term) Term {
	srt := f.vc.tt.sort(v.Type())
	n := f.name(v)
	f.vc.cmd(fmt.Sprintf("(declare-const %s %s)", n, srt))
	t := Term{n, srt}
	f.vals[v] = t
	f.vc.assume(True, f.vc.tt.wf(v.Type(), t, al))
	return t
}

func (f *frame) pos(i ssa.Instruction) string {
	p := i.Pos()
	if !p.IsValid() {
		// search the block for a nearby position
		for _, j := range i.Block().Instrs {
			if j.Pos().IsValid() {
				p = j.Pos()
				break
			}
		}
	}
	if !p.IsValid() {
		return f.fn.Name()
	}
	ps := f.vc.P.Fset.Position(p)
	fn := ps.Filename
	if i := strings.Index(fn, "/repo/"); i >= 0 {
		fn = fn[i+6:]
	}
	return fmt.Sprintf("%s:%d", fn, ps.Line)
}

func (f *frame) safety(kind string, guard, cond Term, i ssa.Instruction) {
	if f.vc.noSafety {
		return
	}
	f.vc.oblige("safety:"+kind, f.vc.safeProps, guard, cond, i.String(), f.pos(i))
}

// ---- CFG analysis ----

func (f *frame) analyse() error {
	fn := f.fn
	f.loops = map[*ssa.BasicBlock]*loopInfo{}
	f.inLoop = map[*ssa.BasicBlock][]*loopInfo{}
	// back edges
	for _, b := range fn.Blocks {
		for _, s := range b.Succs {
			if s.Dominates(b) {
				li := f.loops[s]
				if li == nil {
					li = &loopInfo{header: s, blocks: map[*ssa.BasicBlock]bool{s: true}, minIdx: s.Index}
					f.loops[s] = li
				}
				// natural loop: walk predecessors from b until header
				var stack []*ssa.BasicBlock
				if !li.blocks[b] {
					li.blocks[b] = true
					stack = append(stack, b)
				}
				for len(stack) > 0 {
					x := stack[len(stack)-1]
					stack = stack[:len(stack)-1]
					for _, p := range x.Preds {
						if !li.blocks[p] {
							li.blocks[p] = true
							stack = append(stack, p)
						}
					}
				}
			}
		}
	}
	var ls []*loopInfo
	for _, li := range f.loops {
		for b := range li.blocks {
			if b.Index < li.minIdx {
				li.minIdx = b.Index
			}
		}
		ls = append(ls, li)
	}
	sort.Slice(ls, func(i, j int) bool {
		if ls[i].minIdx != ls[j].minIdx {
			return ls[i].minIdx < ls[j].minIdx
		}
		return len(ls[i].blocks) > len(ls[j].blocks)
	})
	for i, li := range ls {
		li.ordinal = i
		if f.spec != nil {
			li.spec = f.spec.Loops[i]
		}
		for b := range li.blocks {
			f.inLoop[b] = append(f.inLoop[b], li)
		}
	}
	return nil
}

// LoopTable describes the loops of a function (for contract authors).
func (f *frame) loopTable() []string {
	var ls []*loopInfo
	for _, li := range f.loops {
		ls = append(ls, li)
	}
	sort.Slice(ls, func(i, j int) bool { return ls[i].ordinal < ls[j].ordinal })
	var out []string
	for _, li := range ls {
		where := ""
		for _, in := range li.header.Instrs {
			if in.Pos().IsValid() {
				where = f.pos(in)
				break
			}
		}
		if where == "" {
			for b := range li.blocks {
				for _, in := range b.Instrs {
					if in.Pos().IsValid() {
						where = f.pos(in)
						break
					}
				}
				if where != "" {
					break
				}
			}
		}
		var phis []string
		for _, in := range li.header.Instrs {
			if p, ok := in.(*ssa.Phi); ok {
				phis = append(phis, p.Comment)
			}
		}
		out = append(out, fmt.Sprintf("loop %d: header block %d (%s) near %s phis=%v", li.ordinal, li.header.Index, li.header.Comment, where, phis))
	}
	return out
}

func (f *frame) rpo() []*ssa.BasicBlock {
	seen := map[*ssa.BasicBlock]bool{}
	var post []*ssa.BasicBlock
	var dfs func(b *ssa.BasicBlock)
	dfs = func(b *ssa.BasicBlock) {
		seen[b] = true
		for _, s := range b.Succs {
			if s.Dominates(b) { // back edge
				continue
			}
			if !seen[s] {
				dfs(s)
			}
		}
		post = append(post, b)
	}
	dfs(f.fn.Blocks[0])
	for i, j := 0, len(post)-1; i < j; i, j = i+1, j-1 {
		post[i], post[j] = post[j], post[i]
	}
	return post
}

// modKinds computes which heap keys a loop may write; all==true means everything.
func (f *frame) loopMods(li *loopInfo) (keys map[string]bool, all bool, allocs bool) {
	vc := f.vc
	keys = map[string]bool{}
	addType := func(t types.Type) { vc.tt.kinds(t, keys) }
	// nonFresh: kinds written (possibly) in objects allocated before the loop.  A store whose
	// address is derived, through field/element addressing only, from an allocation made inside
	// the loop body writes a fresh object; everything else counts as non-fresh.
	li.nonFresh = map[string]bool{}
	addNonFresh := func(t types.Type) { vc.tt.kinds(t, li.nonFresh) }
	var freshRoot func(v ssa.Value, n int) bool
	freshRoot = func(v ssa.Value, n int) bool {
		if n > 8 {
			return false
		}
		switch x := v.(type) {
		case *ssa.Alloc:
			return x.Heap && li.blocks[x.Block()]
		case *ssa.MakeSlice:
			return li.blocks[x.Block()]
		case *ssa.FieldAddr:
			return freshRoot(x.X, n+1)
		case *ssa.IndexAddr:
			return freshRoot(x.X, n+1)
		}
		return false
	}
	// appendsTo: v is the loop-carried value of header phi ph, possibly grown by appends
	li.appendOnly = map[string][]*ssa.Phi{}
	var grows func(v ssa.Value, ph *ssa.Phi, n int) bool
	grows = func(v ssa.Value, ph *ssa.Phi, n int) bool {
		if n > 6 {
			return false
		}
		switch x := v.(type) {
		case *ssa.Phi:
			if x == ph {
				return true
			}
			if !li.blocks[x.Block()] {
				return false
			}
			for _, e := range x.Edges {
				if !grows(e, ph, n+1) {
					return false
				}
			}
			return true
		case *ssa.Call:
			if bi, ok := x.Call.Value.(*ssa.Builtin); ok && bi.Name() == "append" && li.blocks[x.Block()] {
				return grows(x.Call.Args[0], ph, n+1)
			}
		}
		return false
	}
	// carrier: the header phi whose loop-carried value an append extends (nil if none)
	carrier := func(call *ssa.Call) *ssa.Phi {
		for _, in := range li.header.Instrs {
			ph, ok := in.(*ssa.Phi)
			if !ok {
				break
			}
			if !grows(call.Call.Args[0], ph, 0) {
				continue
			}
			// every value the loop feeds back into ph must be ph itself grown by appends
			okAll := true
			for i, e := range ph.Edges {
				if li.blocks[li.header.Preds[i]] && !grows(e, ph, 0) {
					okAll = false
				}
			}
			if okAll {
				return ph
			}
		}
		return nil
	}
	appendNonFresh := map[string]bool{} // kinds with an append that has no carrier
	var scan func(in ssa.Instruction, depth int)
	scanFn := func(fn *ssa.Function, depth int) {
		for _, b := range fn.Blocks {
			for _, in := range b.Instrs {
				scan(in, depth)
			}
		}
	}
	scan = func(in ssa.Instruction, depth int) {
		{
			switch x := in.(type) {
			case *ssa.Store:
				addType(x.Val.Type())
				if depth > 0 || !freshRoot(x.Addr, 0) {
					addNonFresh(x.Val.Type())
				}
			case *ssa.Alloc:
				allocs = true
				addType(x.Type().Underlying().(*types.Pointer).Elem())
			case *ssa.MakeSlice:
				allocs = true
				addType(x.Type().Underlying().(*types.Slice).Elem())
			case *ssa.MakeMap:
				allocs = true
				mt := x.Type().Underlying().(*types.Map)
				for _, k := range vc.mapKeys(mt) {
					keys[k] = true
				}
			case *ssa.MakeInterface:
				if vc.tt.sort(x.X.Type()) != SPtr {
					allocs = true
					addType(x.X.Type())
				}
			case *ssa.MakeClosure, *ssa.MakeChan:
				allocs = true
			case *ssa.Convert:
				if _, ok := x.Type().Underlying().(*types.Slice); ok {
					allocs = true
					addType(x.Type().Underlying().(*types.Slice).Elem())
				}
			case *ssa.MapUpdate:
				mt := x.Map.Type().Underlying().(*types.Map)
				for _, k := range vc.mapKeys(mt) {
					keys[k] = true
					li.nonFresh[k] = true
				}
			case *ssa.Next:
				if ri := f.rangeOf[x.Iter]; ri != nil && ri.gv != "" && depth == 0 {
					keys[ri.gv] = true
					li.nonFresh[ri.gv] = true
				}
			case *ssa.Defer, *ssa.Go, *ssa.Send, *ssa.Select:
				all = true
			case ssa.CallInstruction:
				cm := x.Common()
				if bi, ok := cm.Value.(*ssa.Builtin); ok {
					switch bi.Name() {
					case "append":
						allocs = true
						et := cm.Args[0].Type().Underlying().(*types.Slice).Elem()
						addType(et)
						var ph *ssa.Phi
						if call, ok := in.(*ssa.Call); ok && depth == 0 {
							ph = carrier(call)
						}
						ek := map[string]bool{}
						vc.tt.kinds(et, ek)
						for k := range ek {
							if ph == nil {
								appendNonFresh[k] = true
							} else {
								dup := false
								for _, q := range li.appendOnly[k] {
									if q == ph {
										dup = true
									}
								}
								if !dup {
									li.appendOnly[k] = append(li.appendOnly[k], ph)
								}
							}
						}
					case "copy":
						addType(cm.Args[0].Type().Underlying().(*types.Slice).Elem())
						addNonFresh(cm.Args[0].Type().Underlying().(*types.Slice).Elem())
					case "delete":
						mt := cm.Args[0].Type().Underlying().(*types.Map)
						for _, k := range vc.mapKeys(mt) {
							keys[k] = true
							li.nonFresh[k] = true
						}
					}
					return
				}
				sp, callee := f.calleeSpec(cm)
				if ds := f.dynSpec(cm); ds != nil {
					sp = ds
				}
				if sp != nil && sp.Inline && callee != nil {
					all = true // conservative
					return
				}
				if sp == nil && callee != nil && isLeaf(callee) && depth < 4 {
					scanFn(callee, depth+1) // inlined at the call: what its body writes
					return
				}
				if sp != nil && cm.IsInvoke() && len(sp.Dispatch) > 0 && depth < 4 {
					// resolved by case analysis: the union over the implementations
					env := &Env{vc: vc, pkg: vc.pkgOf(nil, sp)}
					for _, tn := range sp.Dispatch {
						T, err := env.lookupType(tn)
						if err != nil {
							all = true
							return
						}
						fn := vc.P.SSA.LookupMethod(T, cm.Method.Pkg(), cm.Method.Name())
						if fn == nil {
							all = true
							return
						}
						csp := vc.P.Specs[FuncKey(fn)]
						switch {
						case csp != nil && csp.HasMod && !csp.Inline:
							allocs = true
							if len(csp.Modifies) > 0 {
								fcm := &ssa.CallCommon{Value: fn, Args: make([]ssa.Value, len(fn.Params))}
								ks := vc.modKeysOf(csp, fn, fcm)
								if ks == nil {
									all = true
								}
								for k := range ks {
									keys[k] = true
									li.nonFresh[k] = true
								}
							}
						case csp == nil && isLeaf(fn):
							scanFn(fn, depth+1)
						default:
							all = true
						}
					}
					return
				}
				if sp == nil || !sp.HasMod {
					all = true
					return
				}
				allocs = true
				if len(sp.Modifies) > 0 {
					ks := vc.modKeysOf(sp, callee, cm)
					if ks == nil {
						all = true
					}
					for k := range ks {
						keys[k] = true
						li.nonFresh[k] = true
					}
				}
			}
		}
	}
	for b := range li.blocks {
		for _, in := range b.Instrs {
			scan(in, 0)
		}
	}
	for k := range appendNonFresh {
		li.nonFresh[k] = true
	}
	for k := range li.nonFresh {
		delete(li.appendOnly, k)
	}
	return
}

func (vc *VC) mapKeys(mt *types.Map) []string {
	ks := vc.tt.sort(mt.Key())
	vs := vc.tt.sort(mt.Elem())
	return []string{"MK:" + ks + "|" + vs, "MH:" + ks, "ML"}
}

// ---- execution ----

func (f *frame) run(params []Term, free []Term, st *State, guard Term) error {
	vc := f.vc
	fn := f.fn
	if len(fn.Blocks) == 0 {
		return fmt.Errorf("function %s has no body", fn)
	}
	if err := f.analyse(); err != nil {
		return err
	}
	for i, p := range fn.Params {
		f.vals[p] = params[i]
	}
	for i, p := range fn.FreeVars {
		f.vals[p] = free[i]
	}
	f.entry = st.clone()
	f.reach = map[*ssa.BasicBlock]Term{}
	f.out = map[*ssa.BasicBlock]*State{}
	f.edge = map[[2]int]Term{}
	f.collectDebug()

	order := f.rpo()
	for _, b := range order {
		var cur *State
		var reach Term
		if b.Index == 0 {
			cur = st.clone()
			reach = guard
		} else {
			var conds []Term
			var sts []*State
			var preds []*ssa.BasicBlock
			for _, p := range b.Preds {
				if b.Dominates(p) && f.loops[b] != nil { // back edge
					continue
				}
				c, ok := f.edge[[2]int{p.Index, b.Index}]
				if !ok {
					continue // unreachable predecessor
				}
				conds = append(conds, c)
				sts = append(sts, f.out[p])
				preds = append(preds, p)
			}
			if len(sts) == 0 {
				continue // unreachable
			}
			reach = vc.define(f.pfx+fmt.Sprintf("reach_b%d", b.Index), Or(conds...))
			cur = vc.merge(conds, sts)
			li := f.loops[b]
			// phis
			phiPre := map[*ssa.Phi]Term{}
			for _, in := range b.Instrs {
				ph, ok := in.(*ssa.Phi)
				if !ok {
					break
				}
				var t Term
				first := true
				for k := len(preds) - 1; k >= 0; k-- {
					idx := predIndex(b, preds[k])
					e := f.val(ph.Edges[idx])
					e.Sort = vc.tt.sort(ph.Type())
					if first {
						t = e
						first = false
					} else {
						t = Ite(conds[k], e, t)
					}
				}
				phiPre[ph] = t
			}
			if li == nil {
				for _, in := range b.Instrs {
					ph, ok := in.(*ssa.Phi)
					if !ok {
						break
					}
					f.set(ph, phiPre[ph])
				}
			} else {
				if err := f.enterLoop(li, reach, cur, phiPre); err != nil {
					return err
				}
			}
		}
		f.reach[b] = reach
		if err := f.execBlock(b, reach, cur); err != nil {
			return err
		}
	}
	return nil
}

func predIndex(b, p *ssa.BasicBlock) int {
	for i, x := range b.Preds {
		if x == p {
			return i
		}
	}
	return -1
}

func (f *frame) loopClauseProps(c *spec.Clause) []string {
	if len(c.Props) > 0 {
		return c.Props
	}
	return f.vc.curProps
}

func (f *frame) enterLoop(li *loopInfo, reach Term, cur *State, phiPre map[*ssa.Phi]Term) error {
	vc := f.vc
	// 1. invariant on entry
	if li.spec != nil {
		for _, c := range li.spec.Invariants {
			env := f.specEnv(cur, li, phiPre)
			t, err := env.evalBool(c.E)
			if err != nil {
				return fmt.Errorf("%s:%d: %v", c.File, c.Line, err)
			}
			vc.oblige(fmt.Sprintf("loop%d-inv-init", li.ordinal), f.loopClauseProps(c), reach, t, c.Src, fmt.Sprintf("%s:%d", relFile(c.File), c.Line))
		}
	}
	// 2. havoc
	keys, all, allocs := f.loopMods(li)
	if all {
		vc.havocAll(cur, reach)
		var ks []string
		for k := range vc.tt.kindSeen {
			ks = append(ks, k)
		}
		ks = append(ks, "ML")
		sort.Strings(ks)
		f.loopFrameAssume(li, ks, cur, reach)
	} else {
		ks := make([]string, 0, len(keys))
		for k := range keys {
			ks = append(ks, k)
		}
		sort.Strings(ks)
		for _, k := range ks {
			pre := vc.heap(cur, k)
			h := vc.declare("Hloop_"+sanitize(k), heapKeySort(k))
			cur.H[k] = h
			if phs := li.appendOnly[k]; len(phs) > 0 && !li.nonFresh[k] && !strings.HasPrefix(k, "M") {
				// besides fresh objects the loop writes this kind only by appending in place to
				// the loop-carried slices phs: their backing array is the one they had at loop
				// entry or a fresh one, so every other object that existed at loop entry is unchanged
				vc.nfresh++
				o := fmt.Sprintf("lfo_%d", vc.nfresh)
				var ne []Term
				sort.Slice(phs, func(i, j int) bool { return phs[i].Name() < phs[j].Name() })
				okPre := true
				for _, ph := range phs {
					pv, ok := phiPre[ph]
					if !ok {
						okPre = false
						break
					}
					ne = append(ne, Ne(Term{o, SInt}, SObj(pv)))
				}
				if okPre {
					vc.cmd(fmt.Sprintf("(assert (=> %s (forall ((%s Int)) (! (=> (and (<= 1 %s) (<= %s %s) %s) (= (select %s %s) (select %s %s))) :pattern ((select %s %s))))))",
						reach.S, o, o, o, cur.Alloc.S, And(ne...).S, h.S, o, pre.S, o, h.S, o))
				}
			} else if !li.nonFresh[k] && !strings.HasPrefix(k, "M") {
				// the loop writes this kind only in objects it allocates itself: every object
				// that existed at loop entry keeps its cells of this kind
				vc.nfresh++
				o := fmt.Sprintf("lfo_%d", vc.nfresh)
				vc.cmd(fmt.Sprintf("(assert (=> %s (forall ((%s Int)) (! (=> (and (<= 1 %s) (<= %s %s)) (= (select %s %s) (select %s %s))) :pattern ((select %s %s))))))",
					reach.S, o, o, o, cur.Alloc.S, h.S, o, pre.S, o, h.S, o))
			}
		}
		if allocs {
			old := cur.Alloc
			cur.Alloc = vc.declare("alloc", SInt)
			vc.assume(True, Ge(cur.Alloc, old))
		}
		for _, k := range ks {
			vc.heapWF(cur.H[k], k, cur.Alloc.S)
		}
		for _, k := range ks {
			vc.mapCard(cur.H[k], k, vc.heap(cur, "ML"), "")
		}
		f.loopFrameAssume(li, ks, cur, reach)
	}
	li.phiHead = map[*ssa.Phi]Term{}
	for _, in := range li.header.Instrs {
		ph, ok := in.(*ssa.Phi)
		if !ok {
			break
		}
		t := f.setFresh(ph, reach, cur.Alloc)
		li.phiHead[ph] = t
		if ph.Comment == "rangeindex" {
			// -1 <= idx < len : sound by construction of range loops
			if lenV := f.rangeLen(li, ph); lenV != nil {
				vc.assume(True, And(Le(IntLit(-1), t), Lt(t, *lenV)))
			} else {
				vc.assume(True, Le(IntLit(-1), t))
			}
		}
	}
	li.stHead = cur.clone()
	// 3. assume invariant
	if li.spec != nil {
		for _, c := range li.spec.Invariants {
			env := f.specEnv(cur, li, li.phiHead)
			t, err := env.evalBool(c.E)
			if err != nil {
				return fmt.Errorf("%s:%d: %v", c.File, c.Line, err)
			}
			vc.assume(reach, t)
		}
		if li.spec.Decreases != nil {
			env := f.specEnv(cur, li, li.phiHead)
			sv, err := env.eval(li.spec.Decreases.E)
			if err != nil {
				return fmt.Errorf("%s:%d: %v", li.spec.Decreases.File, li.spec.Decreases.Line, err)
			}
			li.varEntry = vc.define("variant", sv.T)
			li.hasVar = true
		}
	}
	return nil
}

// rangeLen finds the length bound of a range-index loop: the header's If compares idx+1 < len.
func (f *frame) rangeLen(li *loopInfo, ph *ssa.Phi) *Term {
	for _, in := range li.header.Instrs {
		if b, ok := in.(*ssa.BinOp); ok && b.Op == token.LSS {
			if inc, ok := b.X.(*ssa.BinOp); ok && inc.X == ph {
				if _, isPhi := b.Y.(*ssa.Phi); isPhi {
					return nil
				}
				// len value is defined before the loop
				if yi, ok := b.Y.(ssa.Instruction); ok && li.blocks[yi.Block()] {
					return nil
				}
				t := f.val(b.Y)
				return &t
			}
		}
	}
	return nil
}

func (f *frame) backEdge(li *loopInfo, from *ssa.BasicBlock, cond Term, st *State) error {
	vc := f.vc
	phiVals := map[*ssa.Phi]Term{}
	idx := predIndex(li.header, from)
	for _, in := range li.header.Instrs {
		ph, ok := in.(*ssa.Phi)
		if !ok {
			break
		}
		e := f.val(ph.Edges[idx])
		e.Sort = vc.tt.sort(ph.Type())
		phiVals[ph] = e
	}
	f.loopFrameOblige(li, cond, st)
	if li.spec != nil {
		for _, c := range li.spec.Invariants {
			env := f.specEnv(st, li, phiVals)
			t, err := env.evalBool(c.E)
			if err != nil {
				return fmt.Errorf("%s:%d: %v", c.File, c.Line, err)
			}
			vc.oblige(fmt.Sprintf("loop%d-inv-preserve", li.ordinal), f.loopClauseProps(c), cond, t, c.Src, fmt.Sprintf("%s:%d", relFile(c.File), c.Line))
		}
		if li.hasVar {
			c := li.spec.Decreases
			env := f.specEnv(st, li, phiVals)
			sv, err := env.eval(c.E)
			if err != nil {
				return fmt.Errorf("%s:%d: %v", c.File, c.Line, err)
			}
			vc.oblige(fmt.Sprintf("loop%d-variant", li.ordinal), f.loopClauseProps(c), cond,
				And(Ge(li.varEntry, IntLit(0)), Lt(sv.T, li.varEntry)), c.Src, fmt.Sprintf("%s:%d", relFile(c.File), c.Line))
		}
	}
	return nil
}

func relFile(p string) string {
	if i := strings.Index(p, "/repo/"); i >= 0 {
		return p[i+6:]
	}
	return p
}

func (f *frame) execBlock(b *ssa.BasicBlock, reach Term, st *State) error {
	vc := f.vc
	for _, in := range b.Instrs {
		if vc.Fatal != nil {
			return vc.Fatal
		}
		switch x := in.(type) {
		case *ssa.Phi:
			continue
		case *ssa.DebugRef:
			continue
		case *ssa.If:
			c := f.val(x.Cond)
			f.edge[[2]int{b.Index, b.Succs[0].Index}] = vc.define(f.pfx+"edge", And(reach, c))
			f.edge[[2]int{b.Index, b.Succs[1].Index}] = vc.define(f.pfx+"edge", And(reach, Not(c)))
		case *ssa.Jump:
			f.edge[[2]int{b.Index, b.Succs[0].Index}] = reach
		case *ssa.Return:
			var vals []Term
			for _, r := range x.Results {
				vals = append(vals, f.val(r))
			}
			f.rets = append(f.rets, retInfo{reach, vals, st.clone()})
		case *ssa.Panic:
			if f.top && f.spec != nil && f.spec.MayPanic {
				f.panics = append(f.panics, reach)
			} else {
				f.safety("panic", reach, False, x)
			}
		case *ssa.RunDefers:
			if err := f.runDefers(reach, st); err != nil {
				return err
			}
		default:
			if err := f.exec(in, reach, st); err != nil {
				return err
			}
		}
	}
	f.out[b] = st
	// back edges
	for _, s := range b.Succs {
		if li := f.loops[s]; li != nil && s.Dominates(b) {
			c := f.edge[[2]int{b.Index, s.Index}]
			if err := f.backEdge(li, b, c, st); err != nil {
				return err
			}
		}
	}
	return nil
}

func (f *frame) collectDebug() {
	f.dbg = map[string][]dbgRef{}
	for _, b := range f.fn.Blocks {
		for _, in := range b.Instrs {
			if d, ok := in.(*ssa.DebugRef); ok {
				obj := d.Object()
				if obj == nil {
					continue
				}
				if _, isVar := obj.(*types.Var); !isVar {
					continue
				}
				f.dbg[obj.Name()] = append(f.dbg[obj.Name()], dbgRef{d.X, d.IsAddr, b})
			}
		}
	}
}

// specEnv builds the evaluation environment for loop invariants.
func (f *frame) specEnv(st *State, li *loopInfo, phis map[*ssa.Phi]Term) *Env {
	names := map[string]SV{}
	for _, p := range f.fn.Params {
		if t, ok := f.vals[p]; ok {
			names[p.Name()] = SV{T: t, Ty: p.Type()}
		}
	}
	for _, fv := range f.fn.FreeVars {
		if t, ok := f.vals[fv]; ok {
			if et, ok := derefType(fv.Type()); ok {
				names[fv.Name()] = SV{T: t, Ty: et, Loc: &Loc{PObj(t), POff(t), et}}
			} else {
				names[fv.Name()] = SV{T: t, Ty: fv.Type()}
			}
		}
	}
	var pkg *types.Package
	fn := f.fn
	for fn.Parent() != nil {
		fn = fn.Parent()
	}
	if fn.Pkg != nil {
		pkg = fn.Pkg.Pkg
	}
	return &Env{vc: f.vc, names: names, st: st, old: f.entry, pkg: pkg, fr: f, li: li, phis: phis}
}
