package vc

import (
	"fmt"
	"go/types"
	"os"
	"path/filepath"
	"sort"
	"strings"

	"gocv/spec"

	"golang.org/x/tools/go/packages"
	"golang.org/x/tools/go/ssa"
	"golang.org/x/tools/go/ssa/ssautil"
)

// Load loads the given package patterns from dir with the verif tag and all contracts.
func Load(dir string, patterns []string, assumedDir string) (*Prog, error) {
	cfg := &packages.Config{
		Mode:       packages.NeedName | packages.NeedFiles | packages.NeedCompiledGoFiles | packages.NeedImports | packages.NeedDeps | packages.NeedTypes | packages.NeedSyntax | packages.NeedTypesInfo | packages.NeedTypesSizes | packages.NeedModule,
		Dir:        dir,
		BuildFlags: []string{"-tags=verif"},
		Env:        append(os.Environ(), "GOFLAGS=-mod=mod", "GOPROXY=off", "GOSUMDB=off", "GOTOOLCHAIN=local"),
	}
	pkgs, err := packages.Load(cfg, patterns...)
	if err != nil {
		return nil, err
	}
	var errs []string
	packages.Visit(pkgs, nil, func(p *packages.Package) {
		for _, e := range p.Errors {
			errs = append(errs, e.Error())
		}
	})
	if len(errs) > 0 {
		return nil, fmt.Errorf("package errors (the tree does not compile):\n%s", strings.Join(errs, "\n"))
	}
	prog, _ := ssautil.AllPackages(pkgs, ssa.GlobalDebug|ssa.BareInits)
	prog.Build()
	p := &Prog{Fset: prog.Fset, Pkgs: pkgs, SSA: prog, Specs: map[string]*spec.FuncSpec{}, FnSpecs: map[string]*spec.FuncSpec{}, Macros: map[string]*spec.Macro{}}
	p.ModPath = "github.com/bytom/bytom"
	// contract files inside the repo: every loaded package of the module
	packages.Visit(pkgs, nil, func(pk *packages.Package) {
		if !strings.HasPrefix(pk.PkgPath, p.ModPath) {
			return
		}
		for _, f := range pk.GoFiles {
			if strings.HasSuffix(f, "_contracts_verif.go") {
				if e := p.addContractFile(f, pk.PkgPath); e != nil && err == nil {
					err = e
				}
			}
		}
	})
	if err != nil {
		return nil, err
	}
	if assumedDir != "" {
		files, _ := filepath.Glob(filepath.Join(assumedDir, "*.spec"))
		sort.Strings(files)
		for _, f := range files {
			if e := p.addContractFile(f, ""); e != nil {
				return nil, e
			}
		}
	}
	return p, nil
}

func (p *Prog) addContractFile(path, pkg string) error {
	cf, err := spec.ParseFile(path, pkg)
	if err != nil {
		return err
	}
	for _, f := range cf.Funcs {
		if f.IsFnSpec {
			p.FnSpecs[f.Name] = f
			continue
		}
		k := Key(f.Pkg, f.Name)
		if _, dup := p.Specs[k]; dup {
			return fmt.Errorf("%s:%d: duplicate contract for %s", f.File, f.Line, k)
		}
		p.Specs[k] = f
	}
	for _, m := range cf.Macros {
		p.Macros[m.Name] = m
	}
	if p.GlobalInvs == nil {
		p.GlobalInvs = map[string][]*spec.Clause{}
	}
	for _, g := range cf.GlobalInvs {
		p.GlobalInvs[g.Label] = append(p.GlobalInvs[g.Label], g)
	}
	return nil
}

// FindFunc resolves a contract key to its SSA function.
func (p *Prog) FindFunc(key string) *ssa.Function {
	pkgPath, name := splitKey(key)
	var pkg *ssa.Package
	for _, x := range p.SSA.AllPackages() {
		if x.Pkg.Path() == pkgPath {
			pkg = x
			break
		}
	}
	if pkg == nil {
		return nil
	}
	base := name
	var anon []string
	if i := strings.Index(name, "$"); i >= 0 {
		base = name[:i]
		anon = strings.Split(name[i+1:], "$")
	}
	var fn *ssa.Function
	if strings.HasPrefix(base, "(") {
		end := strings.Index(base, ")")
		recv := base[1:end]
		mname := base[end+2:]
		ptr := strings.HasPrefix(recv, "*")
		recv = strings.TrimPrefix(recv, "*")
		tm, ok := pkg.Members[recv].(*ssa.Type)
		if !ok {
			return nil
		}
		var t types.Type = tm.Type()
		if ptr {
			t = types.NewPointer(t)
		}
		sel := p.SSA.MethodSets.MethodSet(t).Lookup(pkg.Pkg, mname)
		if sel == nil {
			return nil
		}
		fn = p.SSA.MethodValue(sel)
	} else {
		fn, _ = pkg.Members[base].(*ssa.Function)
		if fn == nil && strings.HasPrefix(base, "init#") {
			// not supported
			return nil
		}
	}
	for _, a := range anon {
		if fn == nil {
			return nil
		}
		var idx int
		fmt.Sscan(a, &idx)
		if idx < 1 || idx > len(fn.AnonFuncs) {
			return nil
		}
		fn = fn.AnonFuncs[idx-1]
	}
	return fn
}

// Generate builds the VC(s) of one function under contract (several when the
// contract has `split` directives).
func (p *Prog) Generate(fn *ssa.Function, sp *spec.FuncSpec) ([]*VC, error) {
	combos := [][]splitVal{nil}
	for _, s := range sp.Splits {
		var next [][]splitVal
		for _, c := range combos {
			for _, v := range s.Vals {
				nc := append(append([]splitVal{}, c...), splitVal{s.Var, v})
				next = append(next, nc)
			}
		}
		combos = next
	}
	var out []*VC
	for _, c := range combos {
		vc, err := p.generateOne(fn, sp, c)
		if err != nil {
			return nil, err
		}
		out = append(out, vc)
	}
	return out, nil
}

type splitVal struct {
	name string
	val  int64
}

func (p *Prog) newVC(fn *ssa.Function, sp *spec.FuncSpec) *VC {
	vc := &VC{P: p, Fn: fn, Spec: sp, globals: map[*ssa.Global]int{}, strLits: map[string]string{}, heapDecl: map[string]bool{},
		counts: map[string]int{}, gvals: map[*ssa.Global]Term{}, sums: map[string][]*sumInst{}, sumCache: map[string]*sumInst{}}
	vc.tt = newTypeTab(vc)
	knownCtor = map[string]string{}
	return vc
}

// LoopTable lists the loops of fn with their ordinals.
func (p *Prog) LoopTable(fn *ssa.Function) []string {
	vc := p.newVC(fn, nil)
	f := &frame{vc: vc, fn: fn}
	f.analyse()
	return f.loopTable()
}

func (p *Prog) generateOne(fn *ssa.Function, sp *spec.FuncSpec, splits []splitVal) (vc *VC, err error) {
	vc = p.newVC(fn, sp)
	defer func() {
		if r := recover(); r != nil {
			err = fmt.Errorf("internal error generating VC for %s: %v", fn, r)
		}
	}()
	for _, s := range splits {
		vc.splitInfo += fmt.Sprintf("[%s=%d]", s.name, s.val)
	}
	if len(sp.Props) == 0 {
		// a function that only refines fnspecs inherits their properties
		for _, rn := range sp.Refines {
			if fs := p.FnSpecs[rn]; fs != nil {
				sp.Props = unionProps(sp.Props, fs.Props)
			}
		}
	}
	if len(sp.SafetyProp) == 0 {
		for _, rn := range sp.Refines {
			if fs := p.FnSpecs[rn]; fs != nil {
				sp.SafetyProp = unionProps(sp.SafetyProp, fs.SafetyProp)
			}
		}
	}
	vc.curProps = sp.Props
	vc.safeProps = sp.Props
	if len(sp.SafetyProp) > 0 {
		vc.safeProps = sp.SafetyProp
	}
	vc.noSafety = sp.NoSafety
	vc.typedPtrs = sp.TypedPtrs
	vc.wfHeap = sp.WFHeap
	vc.namedInv = sp.NamedInv
	arrvalMin = arrvalDefault
	if sp.ArrWin && arrvalMin > 16 {
		arrvalMin = 16 // scalar arrays of 16 or more elements are read as one window value (see load)
	}
	vc.mapCardOn = sp.MapCard
	vc.reveal = map[string]bool{}
	for _, r := range sp.Reveal {
		vc.reveal[r] = true
	}
	tt := vc.tt
	vc.cmd("(declare-const alloc0 Int)")
	vc.cmd(fmt.Sprintf("(assert (>= alloc0 %d))", maxGlobals))
	st := &State{H: map[string]Term{}, Alloc: Term{"alloc0", SInt}, Base: &base{id: "0", alloc: "alloc0"}}
	f := &frame{vc: vc, fn: fn, pfx: "", vals: map[ssa.Value]Term{}, tup: map[ssa.Value][]Term{}, spec: sp, top: true, rangeOf: map[ssa.Value]*rangeInfo{}}
	// parameters
	names := map[string]SV{}
	var params []Term
	for _, prm := range fn.Params {
		n := "p_" + sanitize(prm.Name())
		srt := tt.sort(prm.Type())
		vc.cmd(fmt.Sprintf("(declare-const %s %s)", n, srt))
		t := Term{n, srt}
		vc.assume(True, tt.wf(prm.Type(), t, st.Alloc))
		params = append(params, t)
		names[prm.Name()] = SV{T: t, Ty: prm.Type()}
		vc.ModelVars = append(vc.ModelVars, n)
		// type invariant of the fields reachable in one step from a struct pointer parameter
		if et, ok := derefType(prm.Type()); ok {
			if _, isStruct := et.Underlying().(*types.Struct); isStruct && tt.cells(et) <= 64 {
				v := vc.load(st, et, PObj(t), POff(t))
				vc.assume(Ne(PObj(t), IntLit(0)), tt.wf(et, v, st.Alloc))
			}
		}
	}
	var free []Term
	for _, fv := range fn.FreeVars {
		n := "fv_" + sanitize(fv.Name())
		srt := tt.sort(fv.Type())
		vc.cmd(fmt.Sprintf("(declare-const %s %s)", n, srt))
		t := Term{n, srt}
		vc.assume(True, tt.wf(fv.Type(), t, st.Alloc))
		free = append(free, t)
		// free variables are addresses of captured variables
		if et, ok := derefType(fv.Type()); ok {
			loc := &Loc{PObj(t), POff(t), et}
			names[fv.Name()] = SV{Ty: et, Loc: loc, T: t}
			vc.assume(True, Ne(PObj(t), IntLit(0)))
		} else {
			names[fv.Name()] = SV{T: t, Ty: fv.Type()}
		}
	}
	var pkg *types.Package
	if fn.Pkg != nil {
		pkg = fn.Pkg.Pkg
	} else if fn.Parent() != nil {
		par := fn.Parent()
		for par.Parent() != nil {
			par = par.Parent()
		}
		if par.Pkg != nil {
			pkg = par.Pkg.Pkg
		}
	}
	entry := st.clone()
	pre := &Env{vc: vc, names: names, st: entry, old: entry, pkg: pkg}
	vc.entryEnv = pre
	// splits
	for _, s := range splits {
		sv, ok := names[s.name]
		if !ok {
			return nil, fmt.Errorf("%s:%d: split variable %s is not a parameter", sp.File, sp.Line, s.name)
		}
		vc.assume(True, Eq(sv.T, IntLit(s.val)))
	}
	// requires (own + refined fnspecs)
	var ensures []*spec.Clause
	var reqs []*spec.Clause
	reqs = append(reqs, sp.Requires...)
	ensures = append(ensures, sp.Ensures...)
	hasMod := sp.HasMod
	modSpecs := []*spec.FuncSpec{}
	if sp.HasMod {
		modSpecs = append(modSpecs, sp)
	}
	type refined struct {
		fs    *spec.FuncSpec
		names map[string]SV
	}
	var refs []refined
	for _, rn := range sp.Refines {
		fs := p.FnSpecs[rn]
		if fs == nil {
			return nil, fmt.Errorf("%s:%d: unknown fnspec %s", sp.File, sp.Line, rn)
		}
		rnames := map[string]SV{}
		for i, pn := range fs.Params {
			if i < len(fn.Params) {
				rnames[pn] = SV{T: params[i], Ty: fn.Params[i].Type()}
			}
		}
		refs = append(refs, refined{fs, rnames})
		for _, c := range fs.Requires {
			t, err := (&Env{vc: vc, names: rnames, st: entry, old: entry, pkg: pkg}).evalBool(c.E)
			if err != nil {
				return nil, fmt.Errorf("%s:%d: %v", c.File, c.Line, err)
			}
			vc.assume(True, t)
		}
	}
	for _, c := range reqs {
		t, err := pre.evalBool(c.E)
		if err != nil {
			return nil, fmt.Errorf("%s:%d: %v", c.File, c.Line, err)
		}
		vc.assume(True, t)
	}
	// package invariants over never-reassigned globals (assumed; listed in the evidence)
	if pkg != nil {
		for _, g := range p.GlobalInvs[pkg.Path()] {
			t, err := pre.evalBool(g.E)
			if err != nil {
				return nil, fmt.Errorf("%s:%d: %v", g.File, g.Line, err)
			}
			vc.assume(True, t)
			vc.addAssumed("package invariant of " + pkg.Name() + ": " + g.Src)
		}
	}
	// vacuity probe: the preconditions must be satisfiable
	if o := vc.oblige("cover-requires", sp.Props, True, False, "preconditions satisfiable", relFile(sp.File)); o != nil {
		o.ExpectSat = true
		vc.cmds = vc.cmds[:len(vc.cmds)-1] // never assume false
		o.AssumeIdx = -1
	}
	// the frame (own modifies clause plus those of refined fnspecs), evaluated in the entry state
	var entryMods []modLoc
	for _, r := range refs {
		if r.fs.HasMod {
			hasMod = true
			modSpecs = append(modSpecs, r.fs)
		}
	}
	if hasMod {
		for _, ms := range modSpecs {
			nm := names
			for _, r := range refs {
				if r.fs == ms {
					nm = r.names
				}
			}
			m, err := vc.evalMods(ms, &Env{vc: vc, names: nm, st: entry, old: entry, pkg: pkg}, 0)
			if err != nil {
				return vc, fmt.Errorf("%s:%d: %v", ms.File, ms.Line, err)
			}
			entryMods = append(entryMods, m...)
		}
		f.hasFrame = true
		f.entryMods = entryMods
		for _, ms := range modSpecs {
			vc.frameProps = unionProps(vc.frameProps, ms.FrameProps)
		}
	}
	if err := f.run(params, free, st, True); err != nil {
		return vc, err
	}
	// exit
	if len(f.rets) == 0 {
		vc.note("function has no normal exit")
		return vc, nil
	}
	var conds []Term
	var sts []*State
	for _, r := range f.rets {
		conds = append(conds, r.guard)
		sts = append(sts, r.st)
	}
	exitSt := vc.merge(conds, sts)
	exitReach := vc.define("exit_reach", Or(conds...))
	nres := fn.Signature.Results().Len()
	results := make([]Term, nres)
	for i := 0; i < nres; i++ {
		t := f.rets[len(f.rets)-1].vals[i]
		for k := len(f.rets) - 2; k >= 0; k-- {
			t = Ite(f.rets[k].guard, f.rets[k].vals[i], t)
		}
		t.Sort = tt.sort(fn.Signature.Results().At(i).Type())
		results[i] = vc.define("result", t)
		if t.S != results[i].S || !strings.Contains(t.S, "(") {
			vc.ModelVars = append(vc.ModelVars, results[i].S)
		}
	}
	post := map[string]SV{}
	for k, x := range names {
		post[k] = x
	}
	bindResults(post, fn.Signature, sp, results)
	env := &Env{vc: vc, names: post, st: exitSt, old: entry, pkg: pkg, fr: f}
	for _, c := range ensures {
		props := c.Props
		if len(props) == 0 {
			props = sp.Props
		}
		kind := "ensures"
		if c.Label != "" {
			kind = "ensures:" + c.Label
		}
		if sp != nil && sp.Pathwise && len(f.rets) > 1 {
			// `pathwise`: the clause is checked at every return on that return's own state (no
			// if-then-else over the states of the other paths in the heap terms); the obligations of
			// one clause are numbered in the order of the returns.  Together they are the clause on
			// the merged exit state.
			for _, r := range f.rets {
				rp := map[string]SV{}
				for k, x := range names {
					rp[k] = x
				}
				bindResults(rp, fn.Signature, sp, r.vals)
				renv := &Env{vc: vc, names: rp, st: r.st, old: entry, pkg: pkg, fr: f}
				t, err := renv.evalBool(c.E)
				if err != nil {
					return vc, fmt.Errorf("%s:%d: %v", c.File, c.Line, err)
				}
				if o := vc.oblige(kind, props, r.guard, t, c.Src, fmt.Sprintf("%s:%d", relFile(c.File), c.Line)); o != nil {
					o.Clause = c
				}
			}
			continue
		}
		t, err := env.evalBool(c.E)
		if err != nil {
			return vc, fmt.Errorf("%s:%d: %v", c.File, c.Line, err)
		}
		if o := vc.oblige(kind, props, exitReach, t, c.Src, fmt.Sprintf("%s:%d", relFile(c.File), c.Line)); o != nil {
			o.Clause = c
		}
		// vacuity probe: the antecedent of a conditional postcondition must be reachable at the
		// exit (an unreachable one makes the clause say nothing -- e.g. a contradictory
		// precondition, or a predicate that silently evaluates to false)
		if b, ok := c.E.(*spec.Binary); ok && b.Op == "==>" {
			if a, err := env.evalBool(b.X); err == nil {
				ck := "cover-ensures"
				if c.Label != "" {
					ck += ":" + c.Label
				}
				if o := vc.oblige(ck, props, And(exitReach, a), False, "antecedent reachable: "+b.X.String(), fmt.Sprintf("%s:%d", relFile(c.File), c.Line)); o != nil {
					o.ExpectSat = true
					vc.cmds = vc.cmds[:len(vc.cmds)-1]
					o.AssumeIdx = -1
				}
			}
		}
	}
	for _, r := range refs {
		rpost := map[string]SV{}
		for k, x := range r.names {
			rpost[k] = x
		}
		// results of the fnspec: positional
		for i, rn := range r.fs.Results {
			if i < len(results) {
				rpost[rn] = SV{T: results[i], Ty: fn.Signature.Results().At(i).Type()}
			}
		}
		renv := &Env{vc: vc, names: rpost, st: exitSt, old: entry, pkg: pkg, fr: f}
		for _, c := range r.fs.Ensures {
			t, err := renv.evalBool(c.E)
			if err != nil {
				return vc, fmt.Errorf("%s:%d: %v", c.File, c.Line, err)
			}
			props := c.Props
			if len(props) == 0 {
				props = r.fs.Props
			}
			kind := "refines:" + r.fs.Name
			if c.Label != "" {
				kind += ":" + c.Label
			}
			if sp.RefineExcept[c.Label] {
				props = []string{"ASSUMED"} // declared unproved: never claimed, listed as an assumption
				vc.addAssumed("unproved clause " + r.fs.Name + ":" + c.Label + " of " + fn.Name())
			}
			vc.oblige(kind, props, exitReach, t, c.Src, fmt.Sprintf("%s:%d", relFile(c.File), c.Line))
		}
	}
	// frame obligations
	if hasMod {
		exitMods := append([]modLoc{}, entryMods...)
		for _, ms := range modSpecs {
			nm := post
			for _, r := range refs {
				if r.fs == ms {
					nm = map[string]SV{}
					for k, x := range r.names {
						nm[k] = x
					}
					for i, rn := range r.fs.Results {
						if i < len(results) {
							nm[rn] = SV{T: results[i], Ty: fn.Signature.Results().At(i).Type()}
						}
					}
				}
			}
			m, err := vc.evalMods(ms, &Env{vc: vc, names: nm, st: entry, old: entry, pkg: pkg}, 1)
			if err != nil {
				return vc, fmt.Errorf("%s:%d: %v", ms.File, ms.Line, err)
			}
			exitMods = append(exitMods, m...)
		}
		vc.frameObligations("frame", entry, exitSt, exitReach, exitMods, sp)
	}
	// vacuity probe: the exit must be reachable
	if o := vc.oblige("cover-exit", sp.Props, exitReach, False, "normal exit reachable", relFile(sp.File)); o != nil {
		o.ExpectSat = true
		vc.cmds = vc.cmds[:len(vc.cmds)-1]
		o.AssumeIdx = -1
	}
	return vc, nil
}

// frameObligations: every pre-existing cell outside the modifies set is unchanged at exit.
func (vc *VC) frameObligations(kindPfx string, entry, exit *State, guard Term, mods []modLoc, sp *spec.FuncSpec) {
	// if the base changed somewhere (havoc-all on some path) every known key may have changed
	keys := map[string]bool{}
	for k := range exit.H {
		keys[k] = true
	}
	for k := range vc.heapDecl {
		if strings.HasPrefix(k, "H0_") {
			// recover key from name is lossy; handled through exit.H and explicit list below
		}
	}
	baseChanged := exit.Base != entry.Base
	if baseChanged {
		for k := range vc.tt.kindSeen {
			keys[k] = true
		}
		keys["ML"] = true
	}
	ks := make([]string, 0, len(keys))
	for k := range keys {
		ks = append(ks, k)
	}
	sort.Strings(ks)
	for _, k := range ks {
		if strings.HasPrefix(k, "GV:") {
			continue // ghost visited sets are not memory
		}
		h1 := vc.heap(exit, k)
		h0 := vc.heap(entry, k)
		if h1.S == h0.S {
			continue
		}
		o := vc.declare("fr_o", SInt)
		pre := And(Ge(o, IntLit(1)), Le(o, entry.Alloc))
		var cond Term
		if strings.HasPrefix(k, "M") {
			var cover []Term
			for _, m := range mods {
				if m.key == k {
					if m.all {
						cover = append(cover, m.condOrTrue()) // kindof(map): every map of that type
					} else {
						cover = append(cover, And(m.condOrTrue(), Eq(o, m.obj)))
					}
				}
			}
			cond = Implies(And(pre, Not(Or(cover...))), Eq(Select(h1, o), Select(h0, o)))
		} else {
			j := vc.declare("fr_j", SInt)
			var cover []Term
			for _, m := range mods {
				if m.key != k {
					continue
				}
				switch {
				case m.all:
					cover = append(cover, m.condOrTrue())
				case m.whole:
					cover = append(cover, And(m.condOrTrue(), Eq(o, m.obj)))
				default:
					cover = append(cover, And(m.condOrTrue(), Eq(o, m.obj), Le(m.lo, j), Lt(j, m.hi)))
				}
			}
			cond = Implies(And(pre, Not(Or(cover...))), Eq(Select(Select(h1, o), j), Select(Select(h0, o), j)))
		}
		fprops := sp.Props
		if len(vc.frameProps) > 0 {
			fprops = vc.frameProps
		}
		ob := vc.oblige(kindPfx+":"+sanitize(k), fprops, guard, cond, "modifies "+strings.Join(sp.ModSrc, ", "), fmt.Sprintf("%s:%d", relFile(sp.File), sp.Line))
		if ob != nil {
			// the skolem constants are local to this obligation: never assume it afterwards
			vc.cmds = vc.cmds[:len(vc.cmds)-1]
			ob.AssumeIdx = -1
		}
	}
}

// Query renders the SMT-LIB text of one obligation.  skip lists obligations
// whose assume-after command must be dropped (known failures).
func (vc *VC) Query(o *Obligation, skip map[*Obligation]bool) string {
	var sb strings.Builder
	sb.WriteString(Prelude)
	for _, d := range vc.sortDecls {
		sb.WriteString(d)
		sb.WriteString("\n")
	}
	drop := map[int]bool{}
	for _, x := range vc.Obls {
		if x.AssumeIdx >= 0 && (skip[x] || x.NoAssume) {
			drop[x.AssumeIdx] = true
		}
	}
	for i := 0; i < o.Pos && i < len(vc.cmds); i++ {
		if drop[i] {
			continue
		}
		sb.WriteString(vc.cmds[i])
		sb.WriteString("\n")
	}
	for _, c := range o.ExtraCmds {
		sb.WriteString(c)
		sb.WriteString("\n")
	}
	goal := And(o.Guard, Not(o.Cond))
	sb.WriteString("(assert " + goal.S + ")\n")
	sb.WriteString("(check-sat)\n")
	return sb.String()
}

// Restrict returns a copy of o that additionally assumes the entry-state
// predicate src (or its negation).  Used for known findings: the obligation
// must still hold outside the recorded failing region.
func (vc *VC) Restrict(o *Obligation, src string, negate bool) (*Obligation, error) {
	e, err := spec.ParseExpr(src)
	if err != nil {
		return nil, err
	}
	if vc.entryEnv == nil {
		return nil, fmt.Errorf("no entry environment")
	}
	save, saveSums, saveCache := vc.cmds, vc.sums, vc.sumCache
	vc.cmds = nil
	vc.sums, vc.sumCache = map[string][]*sumInst{}, map[string]*sumInst{}
	t, err := vc.entryEnv.evalBool(e)
	extra := vc.cmds
	vc.cmds, vc.sums, vc.sumCache = save, saveSums, saveCache
	if err != nil {
		return nil, err
	}
	if negate {
		t = Not(t)
	}
	n := *o
	n.ExtraCmds = append(append([]string{}, o.ExtraCmds...), extra...)
	n.ExtraCmds = append(n.ExtraCmds, "(assert "+t.S+")")
	n.AssumeIdx = -1
	return &n, nil
}

func (vc *VC) NumCmds() int { return len(vc.cmds) }

// GroundQuery builds a query that is sat iff clause is FALSE for the given
// concrete (scalar) parameter and result values.  Used by replay: the real
// function's observed outputs are judged by the same clause the proof uses.
func (p *Prog) GroundQuery(fn *ssa.Function, sp *spec.FuncSpec, clause *spec.Clause, paramVals, resultVals []Term) (string, error) {
	vc := p.newVC(fn, sp)
	vc.cmd("(declare-const alloc0 Int)")
	st := &State{H: map[string]Term{}, Alloc: Term{"alloc0", SInt}, Base: &base{id: "0", alloc: "alloc0"}}
	names := map[string]SV{}
	for i, prm := range fn.Params {
		if i < len(paramVals) {
			names[prm.Name()] = SV{T: paramVals[i], Ty: prm.Type()}
		}
	}
	bindResults(names, fn.Signature, sp, resultVals)
	var pkg *types.Package
	if fn.Pkg != nil {
		pkg = fn.Pkg.Pkg
	}
	env := &Env{vc: vc, names: names, st: st, old: st, pkg: pkg}
	t, err := env.evalBool(clause.E)
	if err != nil {
		return "", err
	}
	var sb strings.Builder
	sb.WriteString(Prelude)
	for _, d := range vc.sortDecls {
		sb.WriteString(d + "\n")
	}
	for _, c := range vc.cmds {
		sb.WriteString(c + "\n")
	}
	sb.WriteString("(assert " + Not(t).S + ")\n(check-sat)\n")
	return sb.String(), nil
}

// FlatField is one integer/boolean cell of a struct value reached through by-value fields only.
type FlatField struct {
	Path string // Go selector path below the struct (A.B.C)
	Off  int64  // cell offset inside the struct
	Heap string // name of the entry-state heap constant of the cell's kind (H0_...)
	Post string // name of the heap constant used for the exit state by GroundQueryHeap
	Bool bool
}

// FlatFields lists the scalar cells of struct type t (fields of other sorts are skipped: a replay
// leaves them zero/nil).
func (p *Prog) FlatFields(fn *ssa.Function, sp *spec.FuncSpec, t types.Type) []FlatField {
	vc := p.newVC(fn, sp)
	tt := vc.tt
	var out []FlatField
	var walk func(t types.Type, path string, off int64)
	walk = func(t types.Type, path string, off int64) {
		switch u := t.Underlying().(type) {
		case *types.Struct:
			for i := 0; i < u.NumFields(); i++ {
				np := u.Field(i).Name()
				if path != "" {
					np = path + "." + np
				}
				walk(u.Field(i).Type(), np, off+tt.fieldOff(u, i))
			}
		case *types.Basic:
			if isIntKind(u) || u.Info()&types.IsBoolean != 0 {
				k := tt.kind(t)
				out = append(out, FlatField{Path: path, Off: off, Heap: "H0_" + sanitize(k), Post: "H9_" + sanitize(k), Bool: u.Info()&types.IsBoolean != 0})
			}
		}
	}
	walk(t, "", 0)
	return out
}

// HeapCell pins one cell of the entry (Post=false) or exit state of a ground query.
type HeapCell struct {
	Heap     string
	Obj, Off int64
	Val      string
}

// GroundQueryHeap is GroundQuery for functions whose parameters include pointers to structs of
// scalars: the entry state is base 0, the exit state base 9, and the given cells are pinned to the
// values of the model (entry) and to the values observed on the real code (exit).
func (p *Prog) GroundQueryHeap(fn *ssa.Function, sp *spec.FuncSpec, clause *spec.Clause, paramVals, resultVals []Term, cells []HeapCell) (string, error) {
	vc := p.newVC(fn, sp)
	vc.cmd("(declare-const alloc0 Int)")
	old := &State{H: map[string]Term{}, Alloc: Term{"alloc0", SInt}, Base: &base{id: "0"}}
	st := &State{H: map[string]Term{}, Alloc: Term{"alloc0", SInt}, Base: &base{id: "9"}}
	names := map[string]SV{}
	for i, prm := range fn.Params {
		if i < len(paramVals) {
			names[prm.Name()] = SV{T: paramVals[i], Ty: prm.Type()}
		}
	}
	bindResults(names, fn.Signature, sp, resultVals)
	var pkg *types.Package
	if fn.Pkg != nil {
		pkg = fn.Pkg.Pkg
	}
	env := &Env{vc: vc, names: names, st: st, old: old, pkg: pkg}
	t, err := env.evalBool(clause.E)
	if err != nil {
		return "", err
	}
	var sb strings.Builder
	sb.WriteString(Prelude)
	for _, d := range vc.sortDecls {
		sb.WriteString(d + "\n")
	}
	for _, c := range vc.cmds {
		sb.WriteString(c + "\n")
	}
	for _, c := range cells {
		if !vc.heapDecl[c.Heap] {
			continue // the clause does not read this heap
		}
		v := c.Val
		if strings.HasPrefix(v, "-") {
			v = "(- " + v[1:] + ")"
		}
		sb.WriteString(fmt.Sprintf("(assert (= (select (select %s %d) %d) %s))\n", c.Heap, c.Obj, c.Off, v))
	}
	sb.WriteString("(assert " + Not(t).S + ")\n(check-sat)\n")
	return sb.String(), nil
}
