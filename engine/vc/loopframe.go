package vc

import (
	"fmt"
	"go/types"
	"strings"

	"gocv/spec"

	"golang.org/x/tools/go/ssa"
)

// loopFrameAssume: the function's modifies clause is a loop invariant.  After a
// loop header has havocked heap key k, every cell that existed at function
// entry and is outside the frame still holds its entry value.  The matching
// obligation is emitted at every back edge (loopFrameOblige), so this is an
// ordinary inductive invariant, only generated automatically.
func (f *frame) loopFrameAssume(li *loopInfo, keys []string, cur *State, reach Term) {
	vc := f.vc
	if !f.top || !f.hasFrame {
		return
	}
	for _, k := range keys {
		if strings.HasPrefix(k, "GV:") {
			continue // ghost visited sets are not memory
		}
		h1 := vc.heap(cur, k)
		h0 := vc.heap(f.entry, k)
		if h1.S == h0.S {
			continue
		}
		vc.nfresh++
		o := fmt.Sprintf("lfo_%d", vc.nfresh)
		ot := Term{o, SInt}
		pre := And(Ge(ot, IntLit(1)), Le(ot, f.entry.Alloc))
		if strings.HasPrefix(k, "M") {
			var cover []Term
			for _, m := range f.entryMods {
				if m.key == k {
					if m.all {
						cover = append(cover, m.condOrTrue())
					} else {
						cover = append(cover, And(m.condOrTrue(), Eq(ot, m.obj)))
					}
				}
			}
			body := Implies(And(pre, Not(Or(cover...))), Eq(Select(h1, ot), Select(h0, ot)))
			vc.cmd(fmt.Sprintf("(assert (=> %s (forall ((%s Int)) (! %s :pattern ((select %s %s))))))", reach.S, o, body.S, h1.S, o))
			continue
		}
		j := fmt.Sprintf("lfj_%d", vc.nfresh)
		jt := Term{j, SInt}
		var cover []Term
		for _, m := range f.entryMods {
			if m.key != k {
				continue
			}
			if m.all {
				cover = append(cover, m.condOrTrue())
			} else if m.whole {
				cover = append(cover, And(m.condOrTrue(), Eq(ot, m.obj)))
			} else {
				cover = append(cover, And(m.condOrTrue(), Eq(ot, m.obj), Le(m.lo, jt), Lt(jt, m.hi)))
			}
		}
		body := Implies(And(pre, Not(Or(cover...))), Eq(Select(Select(h1, ot), jt), Select(Select(h0, ot), jt)))
		vc.cmd(fmt.Sprintf("(assert (=> %s (forall ((%s Int) (%s Int)) (! %s :pattern ((select (select %s %s) %s))))))", reach.S, o, j, body.S, h1.S, o, j))
		if len(cover) == 0 {
			// nothing of this kind is in the frame: pre-existing objects are unchanged as a whole
			ob := Implies(pre, Eq(Select(h1, ot), Select(h0, ot)))
			vc.cmd(fmt.Sprintf("(assert (=> %s (forall ((%s Int)) (! %s :pattern ((select %s %s))))))", reach.S, o, ob.S, h1.S, o))
		}
	}
	li.frameKeys = keys
}

func (f *frame) loopFrameOblige(li *loopInfo, cond Term, st *State) {
	if !f.top || !f.hasFrame || len(li.frameKeys) == 0 {
		return
	}
	// only the keys havocked at the header need re-establishing
	sub := &State{H: map[string]Term{}, Alloc: st.Alloc, Base: st.Base}
	for _, k := range li.frameKeys {
		if strings.HasPrefix(k, "GV:") {
			continue
		}
		sub.H[k] = f.vc.heap(st, k)
	}
	entry := &State{H: map[string]Term{}, Alloc: f.entry.Alloc, Base: f.entry.Base}
	for _, k := range li.frameKeys {
		if strings.HasPrefix(k, "GV:") {
			continue
		}
		entry.H[k] = f.vc.heap(f.entry, k)
	}
	if sub.Base != entry.Base {
		// a havoc-all happened inside the loop: compare on the havocked keys only
		sub.Base = entry.Base
	}
	f.vc.frameObligations(fmt.Sprintf("loop%d-frame", li.ordinal), entry, sub, cond, f.entryMods, f.spec)
}

// dynOrdinal numbers the dynamic (function-value) call sites of a function in
// block/instruction order; `dyncall <n> <fnspec>` refers to these numbers.
func (f *frame) dynOrdinal(cm *ssa.CallCommon) int {
	if f.dynIdx == nil {
		f.dynIdx = map[*ssa.CallCommon]int{}
		n := 0
		for _, b := range f.fn.Blocks {
			for _, in := range b.Instrs {
				ci, ok := in.(ssa.CallInstruction)
				if !ok {
					continue
				}
				c := ci.Common()
				if c.IsInvoke() || c.StaticCallee() != nil {
					continue
				}
				if _, isBuiltin := c.Value.(*ssa.Builtin); isBuiltin {
					continue
				}
				f.dynIdx[c] = n
				n++
			}
		}
	}
	return f.dynIdx[cm]
}

// dynSpec returns the fnspec bound to a dynamic call site by the function's contract.
func (f *frame) dynSpec(cm *ssa.CallCommon) *spec.FuncSpec {
	if f.spec == nil || cm.IsInvoke() || cm.StaticCallee() != nil {
		return nil
	}
	if name, ok := f.spec.DynCalls[f.dynOrdinal(cm)]; ok {
		return f.vc.P.FnSpecs[name]
	}
	return nil
}

// dispatchCall executes an interface method call whose interface spec lists its
// implementations (`dispatch *A, *B`): under each dynamic type the call is the
// static call of that type's method (its contract, or its body when it has
// none), and a `dispatch` safety obligation demands that the dynamic type is
// one of those listed.
func (f *frame) dispatchCall(v ssa.Value, sp *spec.FuncSpec, cm *ssa.CallCommon, args []Term, g Term, st *State) error {
	vc := f.vc
	tt := vc.tt
	recv := args[0]
	env := &Env{vc: vc, pkg: vc.pkgOf(nil, sp)}
	sig := cm.Signature()
	var conds []Term
	var sts []*State
	var ress [][]Term
	for _, tn := range sp.Dispatch {
		T, err := env.lookupType(tn)
		if err != nil {
			return fmt.Errorf("%s:%d: dispatch: %v", sp.File, sp.Line, err)
		}
		fn := vc.P.SSA.LookupMethod(T, cm.Method.Pkg(), cm.Method.Name())
		if fn == nil {
			return fmt.Errorf("%s:%d: dispatch: %s has no method %s", sp.File, sp.Line, tn, cm.Method.Name())
		}
		cond := vc.define(f.pfx+"disp", Eq(ITag(recv), IntLit(int64(tt.tag(T)))))
		br := st.clone()
		var self Term
		if tt.sort(T) == SPtr {
			self = IPl(recv)
		} else {
			pl := IPl(recv)
			self = vc.load(br, T, PObj(pl), POff(pl))
		}
		vc.assume(And(g, cond), tt.wf(T, self, br.Alloc))
		a := append([]Term{self}, args[1:]...)
		guard := And(g, cond)
		var rs []Term
		csp := vc.P.Specs[FuncKey(fn)]
		if csp == nil || csp.Inline {
			if len(fn.Blocks) == 0 || f.depth >= 6 {
				return fmt.Errorf("dispatch: %s has neither contract nor body", FuncKey(fn))
			}
			rs, err = f.inlineCall(fn, nil, a, guard, br)
		} else {
			var tys []types.Type
			for _, p := range fn.Params {
				tys = append(tys, p.Type())
			}
			rs, err = f.applySpec(csp, fn, fn.Signature, false, a, tys, guard, br, v)
		}
		if err != nil {
			return err
		}
		conds = append(conds, cond)
		sts = append(sts, br)
		ress = append(ress, rs)
	}
	f.safety("dispatch", g, Or(conds...), instrOf(v, f))
	m := vc.merge(conds, sts)
	*st = *m
	n := sig.Results().Len()
	results := make([]Term, n)
	for i := 0; i < n; i++ {
		t := ress[len(ress)-1][i]
		for k := len(ress) - 2; k >= 0; k-- {
			t = Ite(conds[k], ress[k][i], t)
		}
		t.Sort = tt.sort(sig.Results().At(i).Type())
		results[i] = vc.define(f.pfx+"dispres", t)
	}
	f.setResults(v, sig, results)
	return nil
}
