package vc

import (
	"go/types"
	"sort"
	"strings"

	"golang.org/x/tools/go/ssa"
)

// TableCheck: every function value of the slot signature that the package's
// init code stores (the opcode table) must carry a contract refining fnspec.
// Returns the functions without such a contract, the ones whose contract is
// only assumed (trusted), and the number of slot functions found.
func (p *Prog) TableCheck(pkgPath, fnspec string) (missing, assumed []string, total int) {
	var pkg *ssa.Package
	for _, x := range p.SSA.AllPackages() {
		if x.Pkg.Path() == pkgPath {
			pkg = x
		}
	}
	if pkg == nil {
		return []string{"package " + pkgPath + " not loaded"}, nil, 0
	}
	// reference signature: the signature shared by the refining functions that have
	// exactly the fnspec's parameters and results. Helpers with extra parameters
	// (doHash(vm, hashFactory), doOr(vm, xor), ...) also refine the fnspec but are
	// not slot functions; taking "any refining function" made the choice depend on
	// map iteration order and raised a false alarm when a helper was picked.
	fs := p.FnSpecs[fnspec]
	if fs == nil {
		return []string{"fnspec " + fnspec + " not found"}, nil, 0
	}
	var ref *types.Signature
	var keys []string
	for k := range p.Specs {
		if strings.HasPrefix(k, pkgPath+"::") {
			keys = append(keys, k)
		}
	}
	sort.Strings(keys)
	for _, k := range keys {
		for _, r := range p.Specs[k].Refines {
			if r != fnspec {
				continue
			}
			fn := p.FindFunc(k)
			if fn == nil || fn.Signature.Recv() != nil || fn.Signature.Params().Len() != len(fs.Params) || fn.Signature.Results().Len() != len(fs.Results) {
				continue
			}
			if ref == nil {
				ref = fn.Signature
			} else if !types.Identical(ref, fn.Signature) {
				return []string{"functions refining " + fnspec + " with the fnspec's arity disagree on the slot signature: " + k}, nil, 0
			}
		}
	}
	if ref == nil {
		return []string{"no function refines " + fnspec}, nil, 0
	}
	seen := map[*ssa.Function]bool{}
	for name, m := range pkg.Members {
		fn, ok := m.(*ssa.Function)
		if !ok || !(name == "init" || strings.HasPrefix(name, "init#")) {
			continue
		}
		for _, b := range fn.Blocks {
			for _, in := range b.Instrs {
				for _, op := range in.Operands(nil) {
					if op == nil || *op == nil {
						continue
					}
					if f, ok := (*op).(*ssa.Function); ok && types.Identical(f.Signature, ref) {
						if _, isCall := in.(ssa.CallInstruction); isCall {
							if in.(ssa.CallInstruction).Common().Value == *op {
								continue // called, not stored
							}
						}
						seen[f] = true
					}
				}
			}
		}
	}
	for f := range seen {
		total++
		sp := p.Specs[FuncKey(f)]
		ok := false
		if sp != nil {
			for _, r := range sp.Refines {
				if r == fnspec {
					ok = true
				}
			}
		}
		switch {
		case !ok:
			missing = append(missing, f.Name())
		case sp.Assumed:
			assumed = append(assumed, f.Name())
		}
	}
	sort.Strings(missing)
	sort.Strings(assumed)
	return
}
