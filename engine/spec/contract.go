package spec

import (
	"bufio"
	"fmt"
	"os"
	"strings"
)

// Clause is one requires/ensures/invariant/... line.
type Clause struct {
	Kind  string   // requires, ensures, invariant, decreases, assert
	Props []string // property ids this clause is claimed for (inherits from func if empty)
	Label string
	Src   string
	E     Expr
	File  string
	Line  int
}

type LoopSpec struct {
	Ordinal    int
	Invariants []*Clause
	Decreases  *Clause
	Unroll     int // >0: unroll this many times (constant-trip loops)
}

type FuncSpec struct {
	Pkg        string // import path
	Name       string // relative name: F, (*T).M, (T).M, F$1
	Props      []string
	Requires   []*Clause
	Ensures    []*Clause
	Modifies   []Expr
	ModSrc     []string
	ModCond    []Expr // per modifies entry: optional entry-state condition (nil: unconditional)
	ModAtExit  []bool // per modifies entry: location named through the results (modifies@exit)
	HasMod     bool
	FrameProps []string // properties the frame (modifies) obligations are claimed for
	Loops      map[int]*LoopSpec
	Assumed    bool // trusted: body not verified
	Inline     bool
	Pure       bool
	NoSafety   bool
	SafetyProp []string
	Refines    []string
	RefineExcept map[string]bool // labels of refined clauses left unproved
	DynCalls   map[int]string // dynamic call ordinal -> fnspec name
	Params     []string       // for fnspec: parameter names
	Results    []string       // for fnspec / explicit result naming
	IsFnSpec   bool
	Slots      bool
	AllocBound *Clause
	Dispatch   []string // interface method spec: the closed list of implementing types
	MayPanic   bool
	TypedPtrs  bool // assume distinct instances of one struct type never overlap
	WFHeap     bool     // assume that every reference stored in a freshly introduced heap component is allocated
	NamedInv   bool     // closed quantified macro bodies are named by boolean constants (one per invariant and state)
	MapCard    bool     // assume length = cardinality instances (0, 1, 2 keys) for every freshly introduced map key set
	ArrWin     bool     // scalar arrays (ids, hashes) are read as one window value instead of element by element
	Pathwise   bool     // postconditions are checked at every return separately instead of once on the merged exit state
	Reveal     []string // opaque spec functions whose definition this function's proof may use
	AllocFresh bool // results are freshly allocated
	Splits     []*Split
	File       string
	Line       int
	Used       bool
}

type Split struct {
	Var    string
	Lo, Hi int64 // inclusive
	Vals   []int64
}

type Macro struct {
	Name   string
	Params []string
	Body   Expr
	Src    string
	Opaque bool
	Pkg    string // import path of the package whose contract file defines the macro
}

type File struct {
	Funcs      []*FuncSpec
	Macros     []*Macro
	GlobalInvs []*Clause // Label holds the package path
}

func parseProps(s string) (kind string, props []string, label string) {
	// kind[Cxx,Cyy]:label
	kind = s
	if i := strings.Index(s, "["); i >= 0 {
		j := strings.Index(s, "]")
		if j > i {
			for _, p := range strings.Split(s[i+1:j], ",") {
				props = append(props, strings.TrimSpace(p))
			}
			kind = s[:i] + s[j+1:]
		}
	}
	if i := strings.Index(kind, ":"); i >= 0 {
		label = kind[i+1:]
		kind = kind[:i]
	}
	return
}

// ParseFile reads a contract file.  defaultPkg is the import path of the
// package the file sits in ("" for assumed-spec files, which must carry
// `//@ package` lines).
func ParseFile(path, defaultPkg string) (*File, error) {
	f, err := os.Open(path)
	if err != nil {
		return nil, err
	}
	defer f.Close()
	out := &File{}
	pkg := defaultPkg
	var cur *FuncSpec
	var curLoop *LoopSpec
	sc := bufio.NewScanner(f)
	sc.Buffer(make([]byte, 1<<20), 1<<20)
	ln := 0
	pending := ""
	pendingLine := 0
	for sc.Scan() {
		ln++
		line := strings.TrimSpace(sc.Text())
		if !strings.HasPrefix(line, "//@") {
			continue
		}
		body := strings.TrimSpace(line[3:])
		if i := strings.Index(body, " //"); i >= 0 { // trailing comment
			body = strings.TrimSpace(body[:i])
		}
		if pending != "" {
			body = pending + " " + body
		} else {
			pendingLine = ln
		}
		if strings.HasSuffix(body, "\\") {
			pending = strings.TrimSpace(strings.TrimSuffix(body, "\\"))
			continue
		}
		pending = ""
		if body == "" {
			continue
		}
		fields := strings.Fields(body)
		head := fields[0]
		rest := strings.TrimSpace(body[len(head):])
		kind, props, label := parseProps(head)
		fail := func(f string, a ...interface{}) error {
			return fmt.Errorf("%s:%d: %s", path, pendingLine, fmt.Sprintf(f, a...))
		}
		mkClause := func() (*Clause, error) {
			e, err := ParseExpr(rest)
			if err != nil {
				return nil, fail("%v", err)
			}
			return &Clause{Kind: kind, Props: props, Label: label, Src: rest, E: e, File: path, Line: pendingLine}, nil
		}
		switch kind {
		case "package":
			pkg = rest
			cur = nil
		case "func", "fnspec":
			name := rest
			cur = &FuncSpec{Pkg: pkg, Name: name, Loops: map[int]*LoopSpec{}, DynCalls: map[int]string{}, File: path, Line: pendingLine}
			if kind == "fnspec" {
				cur.IsFnSpec = true
				// fnspec Name(p1, p2) (r1, r2)
				if i := strings.Index(name, "("); i >= 0 {
					cur.Name = strings.TrimSpace(name[:i])
					sig := name[i:]
					j := strings.Index(sig, ")")
					if j < 0 {
						return nil, fail("bad fnspec signature")
					}
					for _, p := range strings.Split(sig[1:j], ",") {
						if p = strings.TrimSpace(p); p != "" {
							cur.Params = append(cur.Params, p)
						}
					}
					r := strings.Trim(strings.TrimSpace(sig[j+1:]), "()")
					for _, p := range strings.Split(r, ",") {
						if p = strings.TrimSpace(p); p != "" {
							cur.Results = append(cur.Results, p)
						}
					}
				}
			}
			curLoop = nil
			out.Funcs = append(out.Funcs, cur)
		case "globalinv":
			// package-level invariant over never-reassigned globals: assumed at the entry of every function of the package
			e, err := ParseExpr(rest)
			if err != nil {
				return nil, fail("%v", err)
			}
			out.GlobalInvs = append(out.GlobalInvs, &Clause{Kind: "globalinv", Label: pkg, Src: rest, E: e, File: path, Line: pendingLine})
		case "spec", "opaque":
			// spec name(a, b) = expr   (opaque: an uninterpreted function unless the verified function says `reveal name`)
			eq := strings.Index(rest, "=")
			lp := strings.Index(rest, "(")
			rp := strings.Index(rest, ")")
			if eq < 0 || lp < 0 || rp < lp || eq < rp {
				return nil, fail("bad spec macro")
			}
			m := &Macro{Name: strings.TrimSpace(rest[:lp]), Src: rest, Opaque: kind == "opaque", Pkg: pkg}
			for _, p := range strings.Split(rest[lp+1:rp], ",") {
				if p = strings.TrimSpace(p); p != "" {
					m.Params = append(m.Params, p)
				}
			}
			e, err := ParseExpr(strings.TrimSpace(rest[eq+1:]))
			if err != nil {
				return nil, fail("%v", err)
			}
			m.Body = e
			out.Macros = append(out.Macros, m)
		default:
			if cur == nil {
				return nil, fail("clause %q outside func", kind)
			}
			switch kind {
			case "props":
				cur.Props = strings.Fields(strings.ReplaceAll(rest, ",", " "))
			case "requires":
				c, err := mkClause()
				if err != nil {
					return nil, err
				}
				cur.Requires = append(cur.Requires, c)
			case "ensures":
				c, err := mkClause()
				if err != nil {
					return nil, err
				}
				cur.Ensures = append(cur.Ensures, c)
			case "modifies", "modifies@exit":
				cur.HasMod = true
				if len(props) > 0 {
					cur.FrameProps = props
				}
				if rest != "nothing" && rest != "" {
					// modifies loc, loc [when cond]: the locations may change only if cond holds at entry
					var cond Expr
					if i := strings.Index(rest, " when "); i >= 0 {
						ce, err := ParseExpr(strings.TrimSpace(rest[i+6:]))
						if err != nil {
							return nil, fail("%v", err)
						}
						cond = ce
						rest = strings.TrimSpace(rest[:i])
					}
					for _, m := range splitTop(rest) {
						e, err := ParseExpr(m)
						if err != nil {
							return nil, fail("%v", err)
						}
						cur.Modifies = append(cur.Modifies, e)
						cur.ModSrc = append(cur.ModSrc, m)
						cur.ModCond = append(cur.ModCond, cond)
						cur.ModAtExit = append(cur.ModAtExit, kind == "modifies@exit")
					}
				}
			case "loop":
				var n int
				if _, err := fmt.Sscan(fields[1], &n); err != nil {
					return nil, fail("bad loop ordinal")
				}
				curLoop = &LoopSpec{Ordinal: n}
				cur.Loops[n] = curLoop
				if len(fields) >= 4 && fields[2] == "unroll" {
					fmt.Sscan(fields[3], &curLoop.Unroll)
				}
			case "invariant":
				if curLoop == nil {
					return nil, fail("invariant outside loop")
				}
				c, err := mkClause()
				if err != nil {
					return nil, err
				}
				curLoop.Invariants = append(curLoop.Invariants, c)
			case "decreases":
				if curLoop == nil {
					return nil, fail("decreases outside loop")
				}
				c, err := mkClause()
				if err != nil {
					return nil, err
				}
				curLoop.Decreases = c
			case "allocbound":
				// every data-dependent make() in the body allocates at most this many cells
				c, err := mkClause()
				if err != nil {
					return nil, err
				}
				cur.AllocBound = c
			case "dispatch":
				// interface method spec: calls are resolved by case analysis over these implementing types
				cur.Dispatch = append(cur.Dispatch, splitTop(rest)...)
			case "slots":
				cur.Slots = true // fnspec: every function stored by the package init with this signature must refine it
			case "assumed", "trusted", "external":
				cur.Assumed = true
			case "inline":
				cur.Inline = true
			case "pure":
				cur.Pure = true
			case "nosafety":
				cur.NoSafety = true
			case "wfheap":
				cur.WFHeap = true
			case "pathwise":
				cur.Pathwise = true
			case "arraywindows":
				cur.ArrWin = true
			case "mapcard":
				cur.MapCard = true
			case "namedinv":
				cur.NamedInv = true
			case "reveal":
				cur.Reveal = append(cur.Reveal, strings.Fields(strings.ReplaceAll(rest, ",", " "))...)
			case "typedptrs":
				cur.TypedPtrs = true
			case "maypanic":
				cur.MayPanic = true
			case "allocfresh":
				cur.AllocFresh = true
			case "safety":
				cur.SafetyProp = strings.Fields(strings.ReplaceAll(rest, ",", " "))
			case "refines":
				// refines <FnSpec> [except label1,label2]: excepted clauses are left unproved (assumed)
				fs := strings.Fields(rest)
				if len(fs) == 0 {
					return nil, fail("refines <fnspec>")
				}
				cur.Refines = append(cur.Refines, fs[0])
				if len(fs) >= 3 && fs[1] == "except" {
					if cur.RefineExcept == nil {
						cur.RefineExcept = map[string]bool{}
					}
					for _, l := range strings.Split(strings.Join(fs[2:], ""), ",") {
						cur.RefineExcept[l] = true
					}
				}
			case "results":
				cur.Results = strings.Fields(strings.ReplaceAll(rest, ",", " "))
			case "dyncall":
				var n int
				if len(fields) < 3 {
					return nil, fail("dyncall <n> <fnspec>")
				}
				fmt.Sscan(fields[1], &n)
				cur.DynCalls[n] = fields[2]
			case "split":
				// split x in lo..hi   |  split x in {a,b,c}
				sp := &Split{}
				if len(fields) < 4 || fields[2] != "in" {
					return nil, fail("split x in lo..hi")
				}
				sp.Var = fields[1]
				r := strings.Join(fields[3:], "")
				if strings.HasPrefix(r, "{") {
					for _, v := range strings.Split(strings.Trim(r, "{}"), ",") {
						var x int64
						fmt.Sscan(v, &x)
						sp.Vals = append(sp.Vals, x)
					}
				} else {
					parts := strings.Split(r, "..")
					if len(parts) != 2 {
						return nil, fail("split x in lo..hi")
					}
					fmt.Sscan(parts[0], &sp.Lo)
					fmt.Sscan(parts[1], &sp.Hi)
					for v := sp.Lo; v <= sp.Hi; v++ {
						sp.Vals = append(sp.Vals, v)
					}
				}
				cur.Splits = append(cur.Splits, sp)
			default:
				return nil, fail("unknown clause kind %q", kind)
			}
		}
	}
	return out, sc.Err()
}

// splitTop splits on commas not nested in () or [].
func splitTop(s string) []string {
	var out []string
	depth := 0
	start := 0
	for i, c := range s {
		switch c {
		case '(', '[':
			depth++
		case ')', ']':
			depth--
		case ',':
			if depth == 0 {
				out = append(out, strings.TrimSpace(s[start:i]))
				start = i + 1
			}
		}
	}
	if t := strings.TrimSpace(s[start:]); t != "" {
		out = append(out, t)
	}
	return out
}
