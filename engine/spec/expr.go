// Package spec parses gocv contract files (`//@` lines) and the
// expression language used in them.
package spec

import (
	"fmt"
	"math/big"
	"strings"
)

// ---- expression AST ----

type Expr interface{ String() string }

type Ident struct{ Name string }
type IntLit struct{ Val *big.Int }
type StrLit struct{ Val string }
type BoolLit struct{ Val bool }
type NilLit struct{}
type Unary struct {
	Op string
	X  Expr
}
type Binary struct {
	Op   string
	X, Y Expr
}
type Cond struct{ C, A, B Expr }
type Call struct {
	Fun  string
	Args []Expr
}
type Index struct{ X, I Expr }
type SliceE struct{ X, Lo, Hi Expr }
type Sel struct {
	X    Expr
	Name string
}
type Quant struct {
	Forall bool
	Var    string
	Lo, Hi Expr // half-open lo..hi ; nil,nil => unbounded Int
	Body   Expr
}

// Sum is sum(i in lo..hi, body): the mathematical sum over the half-open range.
type Sum struct {
	Var    string
	Lo, Hi Expr
	Body   Expr
}

func (e *Sum) String() string {
	return "sum(" + e.Var + " in " + e.Lo.String() + ".." + e.Hi.String() + ", " + e.Body.String() + ")"
}

func (e *Ident) String() string   { return e.Name }
func (e *IntLit) String() string  { return e.Val.String() }
func (e *StrLit) String() string  { return fmt.Sprintf("%q", e.Val) }
func (e *BoolLit) String() string { return fmt.Sprint(e.Val) }
func (e *NilLit) String() string  { return "nil" }
func (e *Unary) String() string   { return e.Op + e.X.String() }
func (e *Binary) String() string  { return "(" + e.X.String() + " " + e.Op + " " + e.Y.String() + ")" }
func (e *Cond) String() string {
	return "(" + e.C.String() + " ? " + e.A.String() + " : " + e.B.String() + ")"
}
func (e *Call) String() string {
	var a []string
	for _, x := range e.Args {
		a = append(a, x.String())
	}
	return e.Fun + "(" + strings.Join(a, ", ") + ")"
}
func (e *Index) String() string { return e.X.String() + "[" + e.I.String() + "]" }
func (e *SliceE) String() string {
	lo, hi := "", ""
	if e.Lo != nil {
		lo = e.Lo.String()
	}
	if e.Hi != nil {
		hi = e.Hi.String()
	}
	return e.X.String() + "[" + lo + ":" + hi + "]"
}
func (e *Sel) String() string { return e.X.String() + "." + e.Name }
func (e *Quant) String() string {
	q := "exists"
	if e.Forall {
		q = "forall"
	}
	if e.Lo == nil {
		return "(" + q + " " + e.Var + " :: " + e.Body.String() + ")"
	}
	if e.Hi == nil {
		return "(" + q + " " + e.Var + " in " + e.Lo.String() + " :: " + e.Body.String() + ")"
	}
	return "(" + q + " " + e.Var + " in " + e.Lo.String() + ".." + e.Hi.String() + " :: " + e.Body.String() + ")"
}

// ---- scanner ----

type tok struct {
	kind string // "id", "int", "str", "op", "eof"
	s    string
	pos  int
}

var ops = []string{"<==>", "==>", "&&", "||", "==", "!=", "<=", ">=", "<<", ">>", "&^", "::", "..",
	"+", "-", "*", "/", "%", "&", "|", "^", "<", ">", "!", "(", ")", "[", "]", ",", ".", ":", "?"}

func scan(src string) ([]tok, error) {
	var out []tok
	i := 0
	for i < len(src) {
		c := src[i]
		switch {
		case c == ' ' || c == '\t':
			i++
		case c == '_' || c >= 'a' && c <= 'z' || c >= 'A' && c <= 'Z':
			j := i
			for j < len(src) && (src[j] == '_' || src[j] == '$' || src[j] >= 'a' && src[j] <= 'z' || src[j] >= 'A' && src[j] <= 'Z' || src[j] >= '0' && src[j] <= '9') {
				j++
			}
			out = append(out, tok{"id", src[i:j], i})
			i = j
		case c >= '0' && c <= '9':
			j := i
			for j < len(src) && (src[j] >= '0' && src[j] <= '9' || src[j] >= 'a' && src[j] <= 'f' || src[j] >= 'A' && src[j] <= 'F' || src[j] == 'x' || src[j] == 'X' || src[j] == '_') {
				j++
			}
			// do not swallow ".." range after a number like 0..n
			out = append(out, tok{"int", src[i:j], i})
			i = j
		case c == '"':
			j := i + 1
			var sb strings.Builder
			for j < len(src) && src[j] != '"' {
				if src[j] == '\\' && j+1 < len(src) {
					j++
					switch src[j] {
					case 'n':
						sb.WriteByte('\n')
					case 't':
						sb.WriteByte('\t')
					default:
						sb.WriteByte(src[j])
					}
				} else {
					sb.WriteByte(src[j])
				}
				j++
			}
			if j >= len(src) {
				return nil, fmt.Errorf("unterminated string at %d", i)
			}
			out = append(out, tok{"str", sb.String(), i})
			i = j + 1
		case c == '\'':
			// char literal 'x'
			if i+2 < len(src) && src[i+2] == '\'' {
				out = append(out, tok{"int", fmt.Sprint(int(src[i+1])), i})
				i += 3
			} else {
				return nil, fmt.Errorf("bad char literal at %d", i)
			}
		default:
			found := false
			for _, o := range ops {
				if strings.HasPrefix(src[i:], o) {
					out = append(out, tok{"op", o, i})
					i += len(o)
					found = true
					break
				}
			}
			if !found {
				return nil, fmt.Errorf("unexpected character %q at %d in %q", c, i, src)
			}
		}
	}
	out = append(out, tok{"eof", "", len(src)})
	return out, nil
}

// ---- parser ----

type parser struct {
	toks []tok
	p    int
	src  string
}

func ParseExpr(src string) (e Expr, err error) {
	toks, err := scan(src)
	if err != nil {
		return nil, err
	}
	ps := &parser{toks: toks, src: src}
	defer func() {
		if r := recover(); r != nil {
			if pe, ok := r.(parseErr); ok {
				err = fmt.Errorf("%s in %q", string(pe), src)
				return
			}
			panic(r)
		}
	}()
	e = ps.expr()
	if ps.peek().kind != "eof" {
		ps.fail("unexpected %q", ps.peek().s)
	}
	return e, nil
}

type parseErr string

func (ps *parser) fail(f string, a ...interface{}) {
	panic(parseErr(fmt.Sprintf(f, a...) + fmt.Sprintf(" at col %d", ps.peek().pos)))
}
func (ps *parser) peek() tok { return ps.toks[ps.p] }
func (ps *parser) next() tok  { t := ps.toks[ps.p]; ps.p++; return t }
func (ps *parser) isOp(s string) bool {
	t := ps.peek()
	return t.kind == "op" && t.s == s
}
func (ps *parser) accept(s string) bool {
	if ps.isOp(s) {
		ps.p++
		return true
	}
	return false
}
func (ps *parser) expect(s string) {
	if !ps.accept(s) {
		ps.fail("expected %q, got %q", s, ps.peek().s)
	}
}

func (ps *parser) expr() Expr {
	t := ps.peek()
	if t.kind == "id" && (t.s == "forall" || t.s == "exists") {
		// quantifier: forall x in lo..hi :: body   |  forall x :: body
		if ps.toks[ps.p+1].kind == "id" {
			ps.next()
			v := ps.next().s
			q := &Quant{Forall: t.s == "forall", Var: v}
			if ps.peek().kind == "id" && ps.peek().s == "in" {
				ps.next()
				q.Lo = ps.additive()
				if c, ok := q.Lo.(*Call); ok && (c.Fun == "keys" || c.Fun == "type" || c.Fun == "elems") && !ps.isOp("..") {
					// forall k in keys(m) :: body  -- k ranges over the keys present in map m
					q.Hi = nil
				} else {
					ps.expect("..")
					q.Hi = ps.additive()
				}
			}
			ps.expect("::")
			q.Body = ps.expr()
			return q
		}
	}
	return ps.iff()
}

func (ps *parser) iff() Expr {
	x := ps.implies()
	for ps.accept("<==>") {
		y := ps.implies()
		x = &Binary{"<==>", x, y}
	}
	return x
}

func (ps *parser) implies() Expr {
	x := ps.ternary()
	if ps.accept("==>") {
		// right assoc; rhs may be a quantifier
		var y Expr
		t := ps.peek()
		if t.kind == "id" && (t.s == "forall" || t.s == "exists") && ps.toks[ps.p+1].kind == "id" {
			y = ps.expr()
		} else {
			y = ps.implies()
		}
		return &Binary{"==>", x, y}
	}
	return x
}

func (ps *parser) ternary() Expr {
	c := ps.or()
	if ps.accept("?") {
		a := ps.ternary()
		ps.expect(":")
		b := ps.ternary()
		return &Cond{c, a, b}
	}
	return c
}

func (ps *parser) or() Expr {
	x := ps.and()
	for ps.accept("||") {
		x = &Binary{"||", x, ps.and()}
	}
	return x
}
func (ps *parser) and() Expr {
	x := ps.cmp()
	for ps.accept("&&") {
		x = &Binary{"&&", x, ps.cmp()}
	}
	return x
}
func (ps *parser) cmp() Expr {
	x := ps.additive()
	for {
		t := ps.peek()
		if t.kind == "op" && (t.s == "==" || t.s == "!=" || t.s == "<" || t.s == "<=" || t.s == ">" || t.s == ">=") {
			ps.next()
			y := ps.additive()
			// chained comparison a <= b < c  ==> (a<=b) && (b<c)
			if b, ok := x.(*Binary); ok && isCmp(b.Op) && isOrder(t.s) && isOrder(b.Op) {
				x = &Binary{"&&", x, &Binary{t.s, b.Y, y}}
			} else if a, ok := x.(*Binary); ok && a.Op == "&&" {
				if b, ok := a.Y.(*Binary); ok && isOrder(b.Op) && isOrder(t.s) && chainTail(a) {
					x = &Binary{"&&", x, &Binary{t.s, b.Y, y}}
				} else {
					x = &Binary{t.s, x, y}
				}
			} else {
				x = &Binary{t.s, x, y}
			}
			continue
		}
		return x
	}
}
func chainTail(*Binary) bool { return false }
func isCmp(s string) bool {
	return s == "==" || s == "!=" || isOrder(s)
}
func isOrder(s string) bool { return s == "<" || s == "<=" || s == ">" || s == ">=" }

func (ps *parser) additive() Expr {
	x := ps.mul()
	for {
		t := ps.peek()
		if t.kind == "op" && (t.s == "+" || t.s == "-" || t.s == "|" || t.s == "^") {
			ps.next()
			x = &Binary{t.s, x, ps.mul()}
			continue
		}
		return x
	}
}
func (ps *parser) mul() Expr {
	x := ps.unary()
	for {
		t := ps.peek()
		if t.kind == "op" && (t.s == "*" || t.s == "/" || t.s == "%" || t.s == "<<" || t.s == ">>" || t.s == "&" || t.s == "&^") {
			ps.next()
			x = &Binary{t.s, x, ps.unary()}
			continue
		}
		return x
	}
}
func (ps *parser) unary() Expr {
	t := ps.peek()
	if t.kind == "op" && (t.s == "!" || t.s == "-" || t.s == "*" || t.s == "&") {
		ps.next()
		return &Unary{t.s, ps.unary()}
	}
	return ps.postfix()
}
func (ps *parser) postfix() Expr {
	x := ps.primary()
	for {
		switch {
		case ps.accept("."):
			t := ps.next()
			if t.kind != "id" {
				ps.fail("expected field name")
			}
			// qualified call pkg.F(...)
			if id, ok := x.(*Ident); ok && ps.isOp("(") {
				ps.next()
				args := ps.args()
				x = &Call{Fun: id.Name + "." + t.s, Args: args}
				continue
			}
			x = &Sel{x, t.s}
		case ps.accept("["):
			var lo, hi Expr
			if ps.isOp(":") {
				ps.next()
				if !ps.isOp("]") {
					hi = ps.expr()
				}
				ps.expect("]")
				x = &SliceE{x, nil, hi}
				continue
			}
			lo = ps.expr()
			if ps.accept(":") {
				if !ps.isOp("]") {
					hi = ps.expr()
				}
				ps.expect("]")
				x = &SliceE{x, lo, hi}
				continue
			}
			ps.expect("]")
			x = &Index{x, lo}
		default:
			return x
		}
	}
}
func (ps *parser) args() []Expr {
	var args []Expr
	if ps.accept(")") {
		return args
	}
	for {
		args = append(args, ps.expr())
		if ps.accept(",") {
			continue
		}
		ps.expect(")")
		return args
	}
}
func (ps *parser) primary() Expr {
	t := ps.next()
	switch t.kind {
	case "int":
		v, ok := new(big.Int).SetString(strings.ReplaceAll(t.s, "_", ""), 0)
		if !ok {
			ps.fail("bad integer %q", t.s)
		}
		return &IntLit{v}
	case "str":
		return &StrLit{t.s}
	case "id":
		switch t.s {
		case "true":
			return &BoolLit{true}
		case "false":
			return &BoolLit{false}
		case "nil":
			return &NilLit{}
		case "forall", "exists":
			// a quantifier as an operand (e.g. `A && forall i in ... :: P`): its body extends as far as possible
			if ps.peek().kind == "id" {
				ps.p--
				return ps.expr()
			}
		}
		if ps.isOp("(") {
			ps.next()
			if t.s == "sum" && ps.peek().kind == "id" && ps.toks[ps.p+1].kind == "id" && ps.toks[ps.p+1].s == "in" {
				// sum(i in lo..hi, body)
				v := ps.next().s
				ps.next() // in
				lo := ps.additive()
				ps.expect("..")
				hi := ps.additive()
				ps.expect(",")
				body := ps.expr()
				ps.expect(")")
				return &Sum{Var: v, Lo: lo, Hi: hi, Body: body}
			}
			return &Call{Fun: t.s, Args: ps.args()}
		}
		return &Ident{t.s}
	case "op":
		if t.s == "(" {
			e := ps.expr()
			ps.expect(")")
			return e
		}
	}
	ps.p--
	ps.fail("unexpected token %q", t.s)
	return nil
}
