package main

import (
	"fmt"
	"go/types"
	"os"
	"os/exec"
	"regexp"
	"strconv"
	"strings"
	"time"

	"gocv/solve"
	"gocv/vc"
)

// replayStructModel: replay for functions and methods whose parameters (receiver included) are
// integers, booleans or pointers to structs; of a struct only the integer/boolean cells reached
// through by-value fields are taken from the model, every other field stays zero/nil.  Results
// must be integers, booleans or error.  The observed results and the observed final values of
// those cells are judged with the violated clause (ground query over a pinned entry and exit
// state); a safety obligation is confirmed iff the real run panics.
func replayStructModel(prog *vc.Prog, it *oblResult) (string, string) {
	fn := it.vcx.Fn
	if len(fn.FreeVars) > 0 {
		return "not-replayable", "closures are not replayed"
	}
	type pinfo struct {
		name   string
		scalar bool
		elem   types.Type
		fields []vc.FlatField
	}
	var ps []pinfo
	for _, p := range fn.Params {
		if scalarType(p.Type()) {
			ps = append(ps, pinfo{name: p.Name(), scalar: true})
			continue
		}
		pt, ok := p.Type().Underlying().(*types.Pointer)
		if !ok {
			return "not-replayable", "parameter " + p.Name() + " of type " + p.Type().String() + " is neither a scalar nor a pointer to a struct"
		}
		if _, ok := pt.Elem().Underlying().(*types.Struct); !ok {
			return "not-replayable", "parameter " + p.Name() + " does not point to a struct"
		}
		ps = append(ps, pinfo{name: p.Name(), elem: pt.Elem(), fields: prog.FlatFields(fn, it.vcx.Spec, pt.Elem())})
	}
	res := fn.Signature.Results()
	for i := 0; i < res.Len(); i++ {
		t := res.At(i).Type()
		if !scalarType(t) && types.TypeString(t, nil) != "error" {
			return "not-replayable", "result type " + t.String() + " not supported"
		}
	}
	data, err := os.ReadFile(it.File)
	if err != nil {
		return "not-replayable", err.Error()
	}
	q := string(data)
	// 1. model values through auxiliary constants
	type ask struct {
		term string
		isB  bool
	}
	var asks []ask
	add := func(term string, b bool) int { asks = append(asks, ask{term, b}); return len(asks) - 1 }
	type pidx struct {
		val, obj, off int
		cells         []int
	}
	idx := make([]pidx, len(ps))
	for i, p := range ps {
		pn := "p_" + sanitizeID(p.name)
		if p.scalar {
			idx[i].val = add(pn, false)
			continue
		}
		idx[i].obj = add("(pobj "+pn+")", false)
		idx[i].off = add("(poff "+pn+")", false)
		for _, f := range p.fields {
			if !strings.Contains(q, "(declare-const "+f.Heap+" ") {
				idx[i].cells = append(idx[i].cells, -1) // the function never touches this heap: any value
				continue
			}
			idx[i].cells = append(idx[i].cells, add(fmt.Sprintf("(select (select %s (pobj %s)) (+ (poff %s) %d))", f.Heap, pn, pn, f.Off), f.Bool))
		}
	}
	var defs strings.Builder
	var names []string
	for i, a := range asks {
		srt := "Int"
		if a.isB {
			srt = "Bool"
		}
		if a.term == "p_"+strings.TrimPrefix(a.term, "p_") && !strings.HasPrefix(a.term, "(") {
			// scalar parameter: its sort may be Bool
			if m := regexp.MustCompile(`\(declare-const ` + regexp.QuoteMeta(a.term) + ` (\w+)\)`).FindStringSubmatch(q); m != nil {
				srt = m[1]
			}
		}
		n := fmt.Sprintf("gvq_%d", i)
		names = append(names, n)
		defs.WriteString(fmt.Sprintf("(declare-const %s %s)\n(assert (= %s %s))\n", n, srt, n, a.term))
	}
	k := strings.LastIndex(q, "(check-sat)")
	if k < 0 {
		return "not-replayable", "query has no check-sat"
	}
	vq := strings.Replace(q[:k], "(set-logic ALL)", "(set-option :produce-models true)\n(set-logic ALL)", 1) + defs.String() + "(check-sat)\n(get-value (" + strings.Join(names, " ") + "))\n"
	vf := it.File + ".val.smt2"
	os.WriteFile(vf, []byte(vq), 0o644)
	defer os.Remove(vf)
	bin := strings.SplitN(strings.SplitN(it.Solver, "@", 2)[0], "/", 2)[0]
	args := []string{"-T:30", vf}
	if bin == "cvc5" {
		args = []string{"--tlimit=30000", "--produce-models", vf}
	}
	outb, _ := exec.Command(bin, args...).CombinedOutput()
	so := string(outb)
	if !strings.HasPrefix(strings.TrimSpace(so), "sat") {
		return "not-replayable", "solver did not return sat on re-run: " + trunc(so, 200)
	}
	vals := make([]string, len(asks))
	for i, n := range names {
		m := regexp.MustCompile(`\(` + n + `\s+(\(-\s*\d+\)|\d+|true|false)\)`).FindStringSubmatch(so)
		if m == nil {
			return "not-replayable", "no value for " + asks[i].term
		}
		v := m[1]
		if strings.HasPrefix(v, "(") {
			v = "-" + strings.ReplaceAll(strings.TrimSpace(strings.Trim(v, "()-")), " ", "")
		}
		vals[i] = v
	}
	// 2. the test
	qual := func(p *types.Package) string {
		if p == fn.Pkg.Pkg {
			return ""
		}
		return p.Name()
	}
	var body strings.Builder
	var callArgs []string
	type loc struct{ obj, off int64 }
	seen := map[loc]string{}
	var paramTerms []vc.Term
	var cells []vc.HeapCell
	imports := map[string]bool{"fmt": true, "testing": true}
	for i, p := range ps {
		if p.scalar {
			callArgs = append(callArgs, goLiteral(fn.Params[i].Type(), vals[idx[i].val]))
			paramTerms = append(paramTerms, smtLiteral(vals[idx[i].val]))
			continue
		}
		o, _ := strconv.ParseInt(vals[idx[i].obj], 10, 64)
		f, _ := strconv.ParseInt(vals[idx[i].off], 10, 64)
		paramTerms = append(paramTerms, vc.MkPtr(vc.IntLit(o), vc.IntLit(f)))
		ts := types.TypeString(p.elem, qual)
		if named, ok := p.elem.(*types.Named); ok && named.Obj().Pkg() != nil && named.Obj().Pkg() != fn.Pkg.Pkg {
			imports[named.Obj().Pkg().Path()] = true
		}
		vn := fmt.Sprintf("a%d", i)
		if o == 0 {
			body.WriteString(fmt.Sprintf("\tvar %s *%s\n", vn, ts))
			callArgs = append(callArgs, vn)
			continue
		}
		if prev, ok := seen[loc{o, f}]; ok {
			callArgs = append(callArgs, prev)
			continue
		}
		for l := range seen {
			if l.obj == o {
				return "not-replayable", "the model overlaps two struct parameters inside one object"
			}
		}
		seen[loc{o, f}] = vn
		body.WriteString(fmt.Sprintf("\t%s := new(%s)\n", vn, ts))
		for j, fl := range p.fields {
			if idx[i].cells[j] < 0 {
				continue
			}
			v := vals[idx[i].cells[j]]
			if v != "0" && v != "false" {
				body.WriteString(fmt.Sprintf("\t%s.%s = %s\n", vn, fl.Path, v))
			}
			cells = append(cells, vc.HeapCell{Heap: fl.Heap, Obj: o, Off: f + fl.Off, Val: v})
		}
		callArgs = append(callArgs, vn)
	}
	var lhs, prints []string
	for i := 0; i < res.Len(); i++ {
		lhs = append(lhs, fmt.Sprintf("r%d", i))
		if types.TypeString(res.At(i).Type(), nil) == "error" {
			prints = append(prints, fmt.Sprintf("r%d != nil", i))
		} else {
			prints = append(prints, fmt.Sprintf("r%d", i))
		}
	}
	call := ""
	if fn.Signature.Recv() != nil {
		call = fmt.Sprintf("%s.%s(%s)", callArgs[0], fn.Name(), strings.Join(callArgs[1:], ", "))
	} else {
		call = fmt.Sprintf("%s(%s)", fn.Name(), strings.Join(callArgs, ", "))
	}
	if len(lhs) > 0 {
		body.WriteString("\t" + strings.Join(lhs, ", ") + " := " + call + "\n\tfmt.Println(\"GOCV-RESULT\", " + strings.Join(prints, ", ") + ")\n")
	} else {
		body.WriteString("\t" + call + "\n\tfmt.Println(\"GOCV-RESULT\")\n")
	}
	// final values of the pinned cells
	type postRef struct {
		pi, fi int
	}
	var posts []postRef
	for i, p := range ps {
		if p.scalar {
			continue
		}
		vn := fmt.Sprintf("a%d", i)
		if _, ok := seen[loc{}]; ok {
			_ = ok
		}
		own := false
		for _, n := range seen {
			if n == vn {
				own = true
			}
		}
		if !own {
			continue
		}
		var fs []string
		for j, fl := range p.fields {
			if idx[i].cells[j] < 0 {
				continue
			}
			fs = append(fs, vn+"."+fl.Path)
			posts = append(posts, postRef{i, j})
		}
		if len(fs) > 0 {
			body.WriteString("\tfmt.Println(\"GOCV-POST\", " + strings.Join(fs, ", ") + ")\n")
		}
	}
	var imp strings.Builder
	var il []string
	for k := range imports {
		il = append(il, k)
	}
	sortStrings(il)
	for _, k := range il {
		imp.WriteString("\t\"" + k + "\"\n")
	}
	src := fmt.Sprintf("package %s\n\nimport (\n%s)\n\nfunc TestGocvReplay(t *testing.T) {\n%s}\n", fn.Pkg.Pkg.Name(), imp.String(), body.String())
	out, runErr := runOverlayTest(fn, src)
	detail := src + "\n--- output ---\n" + trunc(out, 3000)
	panicked := strings.Contains(out, "panic:") || strings.Contains(out, "[recovered]")
	if strings.HasPrefix(it.Kind, "safety") {
		if panicked {
			return "confirmed", detail
		}
		return "not-reproduced", detail
	}
	if runErr != nil && !strings.Contains(out, "GOCV-RESULT") {
		if panicked {
			return "confirmed", "the real function panics on the model input\n" + detail
		}
		return "not-replayable", "test run failed: " + runErr.Error() + "\n" + detail
	}
	m := regexp.MustCompile(`GOCV-RESULT(.*)`).FindStringSubmatch(out)
	if m == nil || it.obl.Clause == nil {
		return "not-replayable", detail
	}
	fields := strings.Fields(m[1])
	if len(fields) != res.Len() {
		return "not-replayable", detail
	}
	var rts []vc.Term
	for i, f := range fields {
		if types.TypeString(res.At(i).Type(), nil) == "error" {
			if f == "true" {
				rts = append(rts, vc.MkIface(vc.IntLit(1), vc.MkPtr(vc.IntLit(1), vc.IntLit(0))))
			} else {
				rts = append(rts, vc.NilIface)
			}
			continue
		}
		rts = append(rts, smtLiteral(f))
	}
	// observed exit values
	var postVals []string
	for _, pm := range regexp.MustCompile(`GOCV-POST(.*)`).FindAllStringSubmatch(out, -1) {
		postVals = append(postVals, strings.Fields(pm[1])...)
	}
	if len(postVals) == len(posts) {
		for n, pr := range posts {
			fl := ps[pr.pi].fields[pr.fi]
			o, _ := strconv.ParseInt(vals[idx[pr.pi].obj], 10, 64)
			f, _ := strconv.ParseInt(vals[idx[pr.pi].off], 10, 64)
			cells = append(cells, vc.HeapCell{Heap: fl.Post, Obj: o, Off: f + fl.Off, Val: postVals[n]})
		}
	}
	gq, err := prog.GroundQueryHeap(fn, it.vcx.Spec, it.obl.Clause, paramTerms, rts, cells)
	if err != nil {
		return "not-replayable", "ground query: " + err.Error() + "\n" + detail
	}
	gf := it.File + ".ground.smt2"
	os.WriteFile(gf, []byte(gq), 0o644)
	r := solve.Run(gf, 10*time.Second, 0, "", false)
	detail += "\nobserved results: " + strings.Join(fields, " ") + "; final cells: " + strings.Join(postVals, " ") + "; clause `" + it.Src + "` evaluated on them: "
	switch r.Status {
	case "unsat":
		// no state with these cell values falsifies the clause: the real run satisfies it
		return "not-reproduced", detail + "true"
	case "sat":
		return "confirmed", detail + "FALSE (violated by the real code)"
	}
	return "not-replayable", detail + "undecided"
}

func sortStrings(s []string) {
	for i := 1; i < len(s); i++ {
		for j := i; j > 0 && s[j] < s[j-1]; j-- {
			s[j], s[j-1] = s[j-1], s[j]
		}
	}
}
