package main

import (
	"fmt"
	"os"

	"gocv/vc"
)

// tryReplay turns a solver model into a run of the real function.
// Outcomes: confirmed, not-reproduced, not-replayable.
func tryReplay(prog *vc.Prog, it *oblResult, model string) (string, string) {
	return replayModel(prog, it, model)
}

func cmdReplay(args []string) int {
	if len(args) < 1 {
		usage()
	}
	data, err := os.ReadFile(args[0])
	if err != nil {
		fmt.Fprintln(os.Stderr, err)
		return 2
	}
	fmt.Println(string(data))
	return 0
}
