package main

import (
	"encoding/json"
	"fmt"
	"go/types"
	"os"
	"os/exec"
	"path/filepath"
	"regexp"
	"strings"
	"time"

	"gocv/solve"
	"gocv/vc"

	"golang.org/x/tools/go/ssa"
)

// replayModel turns a sat model of a failed obligation into an execution of
// the real function (injected with `go test -overlay`, nothing is written into
// /repo) and judges the observed behaviour:
//   - safety obligation: confirmed iff the real run panics;
//   - ensures obligation: the observed results are substituted into the same
//     clause and a ground query decides whether the clause is false.
//
// Supported shapes: package-level functions whose parameters are integers or
// booleans and whose results are integers, booleans or error.  Everything
// else is "not-replayable" (the VIOLATION line then ends with
// no-failing-input-found).
func replayModel(prog *vc.Prog, it *oblResult, model string) (string, string) {
	fn := it.vcx.Fn
	if fn.Signature.Recv() != nil || len(fn.FreeVars) > 0 {
		return replayStructModel(prog, it)
	}
	for _, p := range fn.Params {
		if !scalarType(p.Type()) {
			return replayStructModel(prog, it)
		}
	}
	res := fn.Signature.Results()
	for i := 0; i < res.Len(); i++ {
		t := res.At(i).Type()
		if !scalarType(t) && types.TypeString(t, nil) != "error" {
			return "not-replayable", "result type " + t.String() + " not supported"
		}
	}
	// 1. parameter values from the model
	var names []string
	for _, p := range fn.Params {
		names = append(names, "p_"+sanitizeID(p.Name()))
	}
	vals, err := getValues(it.File, it.Solver, names)
	if err != nil {
		return "not-replayable", "cannot read model values: " + err.Error()
	}
	// 2. run the real function
	var args []string
	for i, p := range fn.Params {
		args = append(args, goLiteral(p.Type(), vals[i]))
	}
	var lhs []string
	var prints []string
	for i := 0; i < res.Len(); i++ {
		lhs = append(lhs, fmt.Sprintf("r%d", i))
		if types.TypeString(res.At(i).Type(), nil) == "error" {
			prints = append(prints, fmt.Sprintf("r%d != nil", i))
		} else {
			prints = append(prints, fmt.Sprintf("r%d", i))
		}
	}
	call := fmt.Sprintf("%s(%s)", fn.Name(), strings.Join(args, ", "))
	body := call
	if len(lhs) > 0 {
		body = strings.Join(lhs, ", ") + " := " + call + "\n\tfmt.Println(\"GOCV-RESULT\", " + strings.Join(prints, ", ") + ")"
	} else {
		body += "\n\tfmt.Println(\"GOCV-RESULT\")"
	}
	src := fmt.Sprintf("package %s\n\nimport (\n\t\"fmt\"\n\t\"testing\"\n)\n\nfunc TestGocvReplay(t *testing.T) {\n\t%s\n}\n", fn.Pkg.Pkg.Name(), body)
	out, runErr := runOverlayTest(fn, src)
	detail := "inputs: " + strings.Join(args, ", ") + "\n" + src + "\n--- output ---\n" + trunc(out, 3000)
	panicked := strings.Contains(out, "panic:") || strings.Contains(out, "[recovered]")
	if strings.HasPrefix(it.Kind, "safety") {
		if panicked {
			return "confirmed", detail
		}
		return "not-reproduced", detail
	}
	if runErr != nil && !strings.Contains(out, "GOCV-RESULT") {
		if panicked {
			return "confirmed", "the real function panics on the model input\n" + detail
		}
		return "not-replayable", "test run failed: " + runErr.Error() + "\n" + detail
	}
	m := regexp.MustCompile(`GOCV-RESULT(.*)`).FindStringSubmatch(out)
	if m == nil {
		return "not-replayable", detail
	}
	fields := strings.Fields(m[1])
	if len(fields) != res.Len() {
		return "not-replayable", detail
	}
	if it.obl.Clause == nil {
		return "not-replayable", "no clause attached to obligation\n" + detail
	}
	// 3. judge the observed results with the contract clause
	var pts, rts []vc.Term
	for _, v := range vals {
		pts = append(pts, smtLiteral(v))
	}
	for i, f := range fields {
		t := res.At(i).Type()
		if types.TypeString(t, nil) == "error" {
			if f == "true" {
				rts = append(rts, vc.MkIface(vc.IntLit(1), vc.MkPtr(vc.IntLit(1), vc.IntLit(0))))
			} else {
				rts = append(rts, vc.NilIface)
			}
			continue
		}
		rts = append(rts, smtLiteral(f))
	}
	q, err := prog.GroundQuery(fn, it.vcx.Spec, it.obl.Clause, pts, rts)
	if err != nil {
		return "not-replayable", "ground query: " + err.Error()
	}
	gf := it.File + ".ground.smt2"
	os.WriteFile(gf, []byte(q), 0o644)
	r := solve.Run(gf, 10*time.Second, 0, "", false)
	detail += "\nobserved results: " + strings.Join(fields, " ") + "; clause `" + it.Src + "` evaluated on them: "
	switch r.Status {
	case "sat":
		return "confirmed", detail + "FALSE (violated by the real code)"
	case "unsat":
		return "not-reproduced", detail + "true"
	}
	return "not-replayable", detail + "undecided"
}

func scalarType(t types.Type) bool {
	b, ok := t.Underlying().(*types.Basic)
	return ok && (b.Info()&types.IsInteger != 0 || b.Info()&types.IsBoolean != 0)
}

func sanitizeID(s string) string {
	var sb strings.Builder
	for _, c := range s {
		if c >= 'a' && c <= 'z' || c >= 'A' && c <= 'Z' || c >= '0' && c <= '9' || c == '_' {
			sb.WriteRune(c)
		} else {
			sb.WriteString("_")
		}
	}
	return sb.String()
}

func smtLiteral(v string) vc.Term {
	switch v {
	case "true":
		return vc.True
	case "false":
		return vc.False
	}
	if strings.HasPrefix(v, "-") {
		return vc.Term{S: "(- " + v[1:] + ")", Sort: "Int"}
	}
	return vc.Term{S: v, Sort: "Int"}
}

func goLiteral(t types.Type, v string) string {
	if v == "true" || v == "false" {
		return v
	}
	// MinInt64 cannot be written as a negated literal of type int64 directly: use conversion of constant expression
	return fmt.Sprintf("%s(%s)", types.TypeString(t, func(p *types.Package) string { return p.Name() }), v)
}

// getValues asks the deciding solver for the values of the named constants.
func getValues(file, solver string, names []string) ([]string, error) {
	data, err := os.ReadFile(file)
	if err != nil {
		return nil, err
	}
	if len(names) == 0 {
		return nil, nil
	}
	txt := strings.Replace(string(data), "(set-logic ALL)", "(set-option :produce-models true)\n(set-logic ALL)", 1)
	txt += "(get-value (" + strings.Join(names, " ") + "))\n"
	mf := file + ".val.smt2"
	os.WriteFile(mf, []byte(txt), 0o644)
	defer os.Remove(mf)
	bin := strings.SplitN(solver, "/", 2)[0] // portfolio variants share the binary
	var args []string
	switch solver {
	case "cvc5":
		args = []string{"--tlimit=20000", "--produce-models", mf}
	default:
		args = []string{"-T:20", mf}
	}
	out, _ := exec.Command(bin, args...).CombinedOutput()
	s := string(out)
	if !strings.HasPrefix(strings.TrimSpace(s), "sat") {
		return nil, fmt.Errorf("solver did not return sat on re-run: %s", trunc(s, 200))
	}
	var vals []string
	for _, n := range names {
		re := regexp.MustCompile(`\(` + regexp.QuoteMeta(n) + `\s+(\(-\s*\d+\)|\d+|true|false)\)`)
		m := re.FindStringSubmatch(s)
		if m == nil {
			return nil, fmt.Errorf("no value for %s in %s", n, trunc(s, 300))
		}
		v := m[1]
		if strings.HasPrefix(v, "(") {
			v = "-" + strings.TrimSpace(strings.Trim(v, "()-"))
			v = strings.ReplaceAll(v, " ", "")
		}
		vals = append(vals, v)
	}
	return vals, nil
}

// runOverlayTest runs src as an in-package test of fn's package without touching /repo.
func runOverlayTest(fn *ssa.Function, src string) (string, error) {
	pkgPath := fn.Pkg.Pkg.Path()
	rel := strings.TrimPrefix(strings.TrimPrefix(pkgPath, modPath), "/")
	dir := filepath.Join(repoDir, rel)
	tmp, err := os.MkdirTemp("", "gocv-replay-")
	if err != nil {
		return "", err
	}
	defer os.RemoveAll(tmp)
	tf := filepath.Join(tmp, "replay_test.go")
	os.WriteFile(tf, []byte(src), 0o644)
	ov := map[string]map[string]string{"Replace": {filepath.Join(dir, "zz_gocv_replay_test.go"): tf}}
	od, _ := json.Marshal(ov)
	of := filepath.Join(tmp, "overlay.json")
	os.WriteFile(of, od, 0o644)
	cmd := exec.Command("go", "test", "-overlay", of, "-vet=off", "-v", "-count=1", "-timeout", "60s", "-run", "^TestGocvReplay$", ".")
	cmd.Dir = dir
	cmd.Env = append(os.Environ(), "GOFLAGS=-mod=mod", "GOPROXY=off", "GOSUMDB=off", "GOTOOLCHAIN=local")
	out, err := cmd.CombinedOutput()
	return string(out), err
}
