// gocv: contract-based deductive verifier for the Bytom Go sources.
package main

import (
	"crypto/sha1"
	"encoding/json"
	"flag"
	"fmt"
	"os"
	"path/filepath"
	"regexp"
	"sort"
	"strings"
	"sync"
	"time"

	"gocv/solve"
	"gocv/spec"
	"gocv/vc"
)

var (
	repoDir  = "/repo"
	verifDir = "/verif"
)

func main() {
	if len(os.Args) < 2 {
		usage()
	}
	if d := os.Getenv("GOCV_REPO"); d != "" {
		repoDir = d
	}
	if d := os.Getenv("GOCV_VERIF"); d != "" {
		verifDir = d
	}
	switch os.Args[1] {
	case "check":
		os.Exit(cmdCheck(os.Args[2:]))
	case "fn":
		os.Exit(cmdFn(os.Args[2:]))
	case "loops":
		os.Exit(cmdLoops(os.Args[2:]))
	case "list":
		os.Exit(cmdList(os.Args[2:]))
	case "replay":
		os.Exit(cmdReplay(os.Args[2:]))
	default:
		usage()
	}
}

func usage() {
	fmt.Fprintln(os.Stderr, "usage: gocv check <PROP> [--tier quick|thorough] | fn <pkg::func> | loops <pkg::func> | list | replay <file>")
	os.Exit(2)
}

const modPath = "github.com/bytom/bytom"

// contractIndex scans the repository for contract files.
type indexEntry struct {
	dir  string // relative package dir
	pkg  string
	file string
	cf   *spec.File
}

func scanContracts() ([]indexEntry, error) {
	var out []indexEntry
	err := filepath.Walk(repoDir, func(p string, info os.FileInfo, err error) error {
		if err != nil {
			return nil
		}
		if info.IsDir() {
			n := info.Name()
			if n == ".git" || n == "vendor" || n == "node_modules" || (p != repoDir && strings.HasPrefix(n, ".")) {
				return filepath.SkipDir
			}
			if p == filepath.Join(repoDir, "lib") {
				return filepath.SkipDir
			}
			return nil
		}
		if strings.HasSuffix(p, "_contracts_verif.go") {
			rel, _ := filepath.Rel(repoDir, filepath.Dir(p))
			pkg := modPath
			if rel != "." {
				pkg = modPath + "/" + filepath.ToSlash(rel)
			}
			cf, err := spec.ParseFile(p, pkg)
			if err != nil {
				return err
			}
			out = append(out, indexEntry{rel, pkg, p, cf})
		}
		return nil
	})
	return out, err
}

func hasProp(props []string, p string) bool {
	for _, x := range props {
		if x == p {
			return true
		}
	}
	return false
}

func specHasProp(f *spec.FuncSpec, p string) bool {
	if hasProp(f.Props, p) || hasProp(f.SafetyProp, p) || hasProp(f.FrameProps, p) {
		return true
	}
	for _, c := range f.Requires {
		if hasProp(c.Props, p) {
			return true
		}
	}
	for _, c := range f.Ensures {
		if hasProp(c.Props, p) {
			return true
		}
	}
	for _, l := range f.Loops {
		for _, c := range l.Invariants {
			if hasProp(c.Props, p) {
				return true
			}
		}
	}
	return false
}

type oblResult struct {
	Name     string  `json:"name"`
	Kind     string  `json:"kind"`
	Status   string  `json:"status"`
	Solver   string  `json:"solver"`
	TimeS    float64 `json:"time_s"`
	Src      string  `json:"src,omitempty"`
	Where    string  `json:"where,omitempty"`
	File     string  `json:"smt_file,omitempty"`
	Expect   string  `json:"expect"`
	ok       bool
	vcx      *vc.VC
	obl      *vc.Obligation
	output   string
	allStats map[string]string
	outside  *oblResult
	preRun   bool // decided statically, no SMT query
	retried  bool // undecided in the first solver stage, decided by the retry stage
}

type knownFinding struct {
	Property   string `json:"property"`
	Obligation string `json:"obligation"`
	Region     string `json:"region,omitempty"` // entry-state predicate characterising the failing inputs
	What       string `json:"what"`
	Witness    any    `json:"witness,omitempty"`
	Function   string `json:"function,omitempty"`
}

func loadKnown() ([]knownFinding, []string) {
	data, err := os.ReadFile(filepath.Join(verifDir, "known_findings.json"))
	if err != nil {
		return nil, nil
	}
	var raw []json.RawMessage
	if err := json.Unmarshal(data, &raw); err != nil {
		fmt.Fprintln(os.Stderr, "known_findings.json:", err)
		return nil, nil
	}
	var kf []knownFinding
	var fixed []string
	for _, r := range raw {
		var s string
		if json.Unmarshal(r, &s) == nil {
			fixed = append(fixed, s)
			continue
		}
		var k knownFinding
		if json.Unmarshal(r, &k) == nil {
			kf = append(kf, k)
		}
	}
	return kf, fixed
}

func loadProg(dirs []string) (*vc.Prog, error) {
	var pats []string
	for _, d := range dirs {
		if d == "." {
			pats = append(pats, ".")
		} else {
			pats = append(pats, "./"+d)
		}
	}
	return vc.Load(repoDir, pats, filepath.Join(verifDir, "contracts", "assumed"))
}

type runCfg struct {
	timeout time.Duration
	tier    string
	seed    int
	workDir string
	prop    string
	crossCheck bool
}

func runObligations(cfg runCfg, items []*oblResult) {
	sem := make(chan struct{}, 4)
	var wg sync.WaitGroup
	for _, it := range items {
		if it.preRun {
			continue
		}
		wg.Add(1)
		sem <- struct{}{}
		go func(it *oblResult) {
			defer wg.Done()
			defer func() { <-sem }()
			q := it.vcx.Query(it.obl, nil)
			fn := filepath.Join(cfg.workDir, sanitizeFile(it.Name)+".smt2")
			os.WriteFile(fn, []byte(q), 0o644)
			it.File = fn
			to := cfg.timeout
			if it.obl.ExpectSat && to > 4*time.Second {
				to = 4 * time.Second // vacuity probes: only `unsat` (contradictory assumptions) is a failure
			}
			r := solve.Run(fn, to, cfg.seed, "", false)
			if r.Status != "sat" && r.Status != "unsat" && !it.obl.ExpectSat {
				// one retry with doubled timeout: every strategy at once, the z3-new strategies
				// restarted under two further fixed seeds each (see solve.seedFor)
				r2 := solve.RunRestarts(fn, 2*cfg.timeout, cfg.seed, "", true, []int{1, 2})
				if r2.Status == "sat" || r2.Status == "unsat" {
					r = r2
					it.retried = true
				}
			}
			it.Status, it.Solver, it.TimeS, it.output, it.allStats = r.Status, r.Solver, r.Time, r.Output, r.All
			want := "unsat"
			if it.obl.ExpectSat {
				want = "sat"
			}
			it.Expect = want
			it.ok = it.Status == want
			if it.obl.ExpectSat {
				// a probe that the solver cannot decide (quantified axioms) is inconclusive, not vacuous
				it.ok = it.Status != "unsat"
			}
			if it.ok && cfg.crossCheck && want == "unsat" {
				// confirm with a second solver where one terminates; a disagreement is a failure
				for _, s := range solve.Available() {
					if s == it.Solver {
						continue
					}
					r2 := solve.Run(fn, cfg.timeout, cfg.seed, s, false)
					if r2.Status == "sat" {
						it.ok = false
						it.Status = "solver-disagreement"
						it.output = r2.Output
					}
					if r2.Status == "unsat" || r2.Status == "sat" {
						break
					}
				}
			}
			if it.ok && os.Getenv("GOCV_KEEP") == "" { // GOCV_KEEP: development aid (determinism audit of the generated queries)
				os.Remove(fn)
				it.File = ""
			}
		}(it)
	}
	wg.Wait()
}

func sanitizeFile(s string) string {
	r := strings.NewReplacer("/", "_", "(", "", ")", "", "*", "", "#", "-", ":", "-", "$", "-", "[", "_", "]", "_", "=", "-", " ", "")
	return r.Replace(s)
}

func cmdCheck(args []string) int {
	fs := flag.NewFlagSet("check", flag.ExitOnError)
	tier := fs.String("tier", "quick", "quick|thorough")
	if len(args) < 1 {
		usage()
	}
	prop := args[0]
	fs.Parse(args[1:])
	if t := os.Getenv("VERIF_TIER"); t != "" && *tier == "" {
		*tier = t
	}
	seed := 0
	fmt.Sscan(os.Getenv("VERIF_SEED"), &seed)
	start := time.Now()
	evPath := filepath.Join(verifDir, "evidence", prop+".json")
	os.MkdirAll(filepath.Dir(evPath), 0o755)
	os.Remove(evPath)

	fail := func(msg string) int {
		// engine-level failure: the property could not be decided
		rp := writeReplay(prop, "engine", map[string]any{"property": prop, "obligation": "(engine)", "outcome": "not-replayable", "error": msg})
		fmt.Printf("VIOLATION property=%s replay=%s no-failing-input-found\n", prop, rp)
		fmt.Fprintln(os.Stderr, "gocv:", msg)
		writeEvidence(evPath, prop, *tier, seed, start, nil, nil, []string{"engine failure: " + msg}, 1, nil, nil)
		return 1
	}

	idx, err := scanContracts()
	if err != nil {
		return fail("contract parse error: " + err.Error())
	}
	// functions that only refine fnspecs inherit the fnspecs' properties
	fnspecProps := map[string][]string{}
	for _, e := range idx {
		for _, f := range e.cf.Funcs {
			if f.IsFnSpec {
				fnspecProps[f.Name] = append(append(append([]string{}, f.Props...), f.FrameProps...), f.SafetyProp...)
			}
		}
	}
	for _, e := range idx {
		for _, f := range e.cf.Funcs {
			if !f.IsFnSpec && len(f.Props) == 0 {
				for _, rn := range f.Refines {
					f.Props = append(f.Props, fnspecProps[rn]...)
				}
			}
		}
	}
	dirSet := map[string]bool{}
	type target struct {
		key string
		sp  *spec.FuncSpec
	}
	var targets []target
	for _, e := range idx {
		for _, f := range e.cf.Funcs {
			if f.IsFnSpec || f.Assumed {
				continue
			}
			if re := os.Getenv("GOCV_FUNCS"); re != "" { // development filter
				if ok, _ := regexp.MatchString(re, f.Name); !ok {
					continue
				}
			}
			if specHasProp(f, prop) {
				dirSet[e.dir] = true
				targets = append(targets, target{vc.Key(f.Pkg, f.Name), f})
			}
		}
	}
	if len(targets) == 0 {
		return fail("no contracts claim property " + prop)
	}
	var dirs []string
	for d := range dirSet {
		dirs = append(dirs, d)
	}
	sort.Strings(dirs)
	prog, err := loadProg(dirs)
	if err != nil {
		return fail("cannot load packages: " + err.Error())
	}
	thorough := *tier == "thorough"
	cfg := runCfg{timeout: 10 * time.Second, tier: *tier, seed: seed, prop: prop, crossCheck: thorough}
	if thorough {
		cfg.timeout = 60 * time.Second
	}
	cfg.workDir = filepath.Join(verifDir, ".work", prop)
	os.RemoveAll(cfg.workDir)
	os.MkdirAll(cfg.workDir, 0o755)

	var items []*oblResult
	var funcs []string
	assumed := map[string]bool{}
	notes := map[string]bool{}
	var genErrs []string
	for _, t := range targets {
		sp := prog.Specs[t.key]
		if sp == nil {
			genErrs = append(genErrs, "contract vanished: "+t.key)
			continue
		}
		fn := prog.FindFunc(t.key)
		if fn == nil {
			genErrs = append(genErrs, "CONTRACT-TARGET-MISSING: "+t.key+" (function under contract no longer exists)")
			continue
		}
		vcs, err := prog.Generate(fn, sp)
		if err != nil {
			genErrs = append(genErrs, fmt.Sprintf("cannot generate VC for %s: %v", t.key, err))
			continue
		}
		funcs = append(funcs, t.key)
		for _, v := range vcs {
			for _, a := range v.Assumed {
				assumed[a] = true
			}
			for _, n := range v.Notes {
				notes[fn.Name()+": "+n] = true
			}
			n := 0
			for _, o := range v.Obls {
				if !hasProp(o.Props, prop) {
					continue
				}
				if o.ExpectSat && !thorough {
					continue
				}
				n++
				items = append(items, &oblResult{Name: o.Name, Kind: o.Kind, Src: o.Src, Where: o.Where, vcx: v, obl: o})
			}
		}
	}
	if len(genErrs) > 0 {
		return fail(strings.Join(genErrs, "; "))
	}
	if len(items) == 0 {
		return fail("vacuous: no obligations generated for " + prop)
	}
	// dispatch tables: every slot function must refine the slot's fnspec
	for name, fs := range prog.FnSpecs {
		if !fs.Slots || !hasProp(fs.Props, prop) || os.Getenv("GOCV_FUNCS") != "" {
			continue
		}
		missing, trusted, total := prog.TableCheck(fs.Pkg, name)
		o := &vc.Obligation{Name: "table-complete:" + name, Kind: "table-complete", Props: fs.Props, Src: fmt.Sprintf("all %d functions stored by init of %s refine %s", total, fs.Pkg, name)}
		it := &oblResult{Name: o.Name, Kind: o.Kind, Src: o.Src, obl: o, Status: "unsat", Solver: "static", Expect: "unsat", ok: len(missing) == 0 && total > 0, preRun: true}
		if !it.ok {
			it.Status = "missing"
			it.output = "functions in the dispatch table without a contract refining " + name + ": " + strings.Join(missing, ", ")
		}
		for _, t := range trusted {
			assumed[fs.Pkg+"::"+t+" (dispatch-table entry whose refinement of "+name+" is trusted, not verified)"] = true
		}
		items = append(items, it)
	}
	known, _ := loadKnown()
	for _, it := range items {
		for _, k := range known {
			if k.Property == prop && k.Obligation == it.Name {
				it.obl.NoAssume = true
			}
		}
	}
	runObligations(cfg, items)

	violations := 0
	replays := 0
	var failed []*oblResult
	knownHit := []string{}
	for _, it := range items {
		if it.ok {
			continue
		}
		failed = append(failed, it)
	}
	sort.Slice(failed, func(i, j int) bool { return failed[i].Name < failed[j].Name })
	if os.Getenv("GOCV_VERBOSE") == "2" { // development aid: every obligation that needed more than a second
		for _, it := range items {
			if it.TimeS > 1 || it.retried {
				fmt.Fprintf(os.Stderr, "SLOW %-70s %-8s %-20s %6.2fs retried=%v %v\n", it.Name, it.Status, it.Solver, it.TimeS, it.retried, it.allStats)
			}
		}
	}
	if os.Getenv("GOCV_VERBOSE") != "" {
		for _, it := range failed {
			fmt.Fprintf(os.Stderr, "FAIL %-70s %-8s %6.2fs %s @%s\n", it.Name, it.Status, it.TimeS, trunc(it.Src, 80), it.Where)
		}
	}
	for _, it := range failed {
		isKnown := false
		for _, k := range known {
			if k.Property != prop || k.Obligation != it.Name {
				continue
			}
			if k.Region == "" {
				isKnown = true
			} else {
				// outside the recorded region the obligation must still discharge
				ro, err := it.vcx.Restrict(it.obl, k.Region, true)
				if err != nil {
					fmt.Fprintf(os.Stderr, "gocv: known finding region for %s: %v\n", it.Name, err)
					continue
				}
				rit := &oblResult{Name: it.Name + "@outside-known-region", Kind: it.Kind, Src: it.Src, Where: it.Where, vcx: it.vcx, obl: ro}
				runObligations(cfg, []*oblResult{rit})
				if rit.ok {
					isKnown = true
					it.outside = rit
				} else {
					// a different violation of the same obligation: report that one
					it.Status, it.Solver, it.output, it.File, it.allStats, it.obl = rit.Status, rit.Solver, rit.output, rit.File, rit.allStats, ro
					it.Name = rit.Name
				}
			}
			if isKnown {
				fmt.Printf("KNOWN-FINDING: property=%s %s [%s]\n", prop, k.What, k.Obligation)
				knownHit = append(knownHit, k.Obligation)
				break
			}
		}
		if isKnown {
			continue
		}
		violations++
		rep := map[string]any{"property": prop, "obligation": it.Name, "kind": it.Kind, "clause": it.Src, "where": it.Where,
			"solver": it.Solver, "result": it.Status, "expected": it.Expect, "solver_output": trunc(it.output, 4000), "all_solvers": it.allStats, "smt_file": it.File}
		suffix := " no-failing-input-found"
		if it.Status == "sat" && replays >= 4 {
			// the check fails already; models and replays of further obligations only cost time
			rep["outcome"] = "not-replayable"
			rep["replay_detail"] = "not attempted: the replay budget of 4 per run is used up"
		} else if it.Status == "sat" {
			replays++
			model := solve.Model(it.File, it.Solver, 20*time.Second)
			rep["model"] = trunc(model, 20000)
			outcome, detail := tryReplay(prog, it, model)
			rep["outcome"] = outcome
			rep["replay_detail"] = detail
			if outcome == "confirmed" {
				suffix = ""
			}
		} else {
			rep["outcome"] = "not-replayable"
		}
		rp := writeReplay(prop, it.Name, rep)
		fmt.Printf("VIOLATION property=%s replay=%s obligation=%s%s\n", prop, rp, it.Name, suffix)
	}
	var as []string
	for a := range assumed {
		as = append(as, "assumed contract: "+a)
	}
	sort.Strings(as)
	var ns []string
	for n := range notes {
		ns = append(ns, "abstraction: "+n)
	}
	sort.Strings(ns)
	writeEvidence(evPath, prop, *tier, seed, start, items, funcs, append(as, ns...), violations, knownHit, nil)
	nOK := 0
	for _, it := range items {
		if it.ok {
			nOK++
		}
	}
	fmt.Printf("gocv: property %s tier %s: %d functions under contract, %d obligations, %d discharged, %d known findings, %d violations, %.1fs\n",
		prop, *tier, len(funcs), len(items), nOK, len(knownHit), violations, time.Since(start).Seconds())
	if violations > 0 {
		return 1
	}
	return 0
}

func trunc(s string, n int) string {
	if len(s) > n {
		return s[:n] + "...(truncated)"
	}
	return s
}

func writeReplay(prop, name string, rep map[string]any) string {
	dir := filepath.Join(verifDir, "replays")
	os.MkdirAll(dir, 0o755)
	h := sha1.Sum([]byte(name))
	p := filepath.Join(dir, fmt.Sprintf("%s-%x.json", prop, h[:5]))
	data, _ := json.MarshalIndent(rep, "", " ")
	os.WriteFile(p, data, 0o644)
	return p
}

func writeEvidence(path, prop, tier string, seed int, start time.Time, items []*oblResult, funcs []string, assumptions []string, violations int, knownHit []string, extra map[string]any) {
	bySolver := map[string]int{}
	total, ok := 0, 0
	solverTime := 0.0
	var samples []any
	var slowest *oblResult
	var notProved []string
	covers, coversInconclusive := 0, 0
	for _, it := range items {
		if it.outside != nil && it.outside.ok {
			// known finding: the obligation that counts is the one restricted to inputs outside the recorded failing region
			it = it.outside
		}
		if !it.ok && hasProp(knownHit, it.Name) {
			continue // recorded known finding without a provable complement: reported separately, not counted
		}
		if it.obl.ExpectSat {
			// vacuity probes are not proof obligations
			if it.Status == "sat" {
				covers++
			} else if it.ok {
				coversInconclusive++
			} else {
				notProved = append(notProved, it.Name+": contradictory assumptions (vacuous)")
			}
			continue
		}
		total++
		if it.ok {
			ok++
			bySolver[it.Solver]++
		} else {
			notProved = append(notProved, it.Name+": "+it.Status)
		}
		solverTime += it.TimeS
		if slowest == nil || it.TimeS > slowest.TimeS {
			slowest = it
		}
		if len(samples) < 8 {
			samples = append(samples, map[string]any{"obligation": it.Name, "kind": it.Kind, "clause": it.Src, "where": it.Where, "status": it.Status, "solver": it.Solver, "time_s": round3(it.TimeS)})
		}
	}
	level := "proof"
	cov := map[string]any{
		"obligations": total, "discharged": ok,
		"checker_cmd":  fmt.Sprintf("bin/gocv check %s --tier %s  (go/ssa VC generation from /repo working tree; z3-new 5.1.0 | cvc5 1.0 | z3 4.8.12 portfolio)", prop, tier),
		"trusted_base": []string{"go/packages+go/types+go/ssa (x/tools v0.29.0) faithful to the Go sources", "gocv VC generator: SMT semantics of SSA instructions and memory model (DESIGN.md §2; includes the append/copy lemmas and, where a contract sets `mapcard`, the instances len >= 1 / len >= 2 of map length = number of keys)", "SMT solver soundness (z3 5.1.0, z3 4.8.12, cvc5 1.0)", "sequential execution, no unsafe, int is 64 bit"},
		"functions_under_contract": funcs, "by_solver": bySolver, "solver_time_s": round3(solverTime),
		"samples": samples, "known_findings_hit": knownHit, "not_proved": notProved, "vacuity_probes_sat": covers, "vacuity_probes_inconclusive": coversInconclusive,
		"integer_semantics": "mathematical integers with exact machine wrap-around per Go type (no bit-vectors)",
	}
	retried := []string{}
	for _, it := range items {
		if it.retried {
			retried = append(retried, it.Name)
		}
	}
	cov["decided_only_by_retry_stage"] = retried // obligations the first solver stage left undecided (fragile proofs)
	if slowest != nil {
		cov["slowest"] =map[string]any{"obligation": slowest.Name, "time_s": round3(slowest.TimeS)}
	}
	if total == 0 || ok == 0 {
		level = "other"
		cov["explanation"] = "no obligation was discharged in this run (engine failure or vacuous check); nothing is claimed"
	}
	for k, v := range extra {
		cov[k] = v
	}
	ev := map[string]any{
		"property_id": prop, "tier": tier, "seed": seed, "level": level, "coverage": cov,
		"assumptions": assumptions, "wall_s": round3(time.Since(start).Seconds()), "violations": violations,
	}
	if assumptions == nil {
		ev["assumptions"] = []string{}
	}
	data, _ := json.MarshalIndent(ev, "", " ")
	os.WriteFile(path, data, 0o644)
}

func round3(f float64) float64 { return float64(int(f*1000+0.5)) / 1000 }

func cmdFn(args []string) int {
	fs := flag.NewFlagSet("fn", flag.ExitOnError)
	dump := fs.Bool("dump", false, "write all queries to .work/fn")
	to := fs.Int("timeout", 10, "seconds")
	only := fs.String("only", "", "substring filter on obligation names")
	if len(args) < 1 {
		usage()
	}
	key := args[0]
	fs.Parse(args[1:])
	if !strings.Contains(key, "::") {
		fmt.Fprintln(os.Stderr, "key must be pkgpath::func (pkgpath relative to the module is accepted)")
		return 2
	}
	pkg, name := key[:strings.Index(key, "::")], key[strings.Index(key, "::")+2:]
	if !strings.HasPrefix(pkg, modPath) {
		pkg = modPath + "/" + pkg
	}
	key = vc.Key(pkg, name)
	dir := strings.TrimPrefix(strings.TrimPrefix(pkg, modPath), "/")
	if dir == "" {
		dir = "."
	}
	prog, err := loadProg([]string{dir})
	if err != nil {
		fmt.Fprintln(os.Stderr, err)
		return 3
	}
	sp := prog.Specs[key]
	if sp == nil {
		fmt.Fprintln(os.Stderr, "no contract for", key)
		return 3
	}
	fn := prog.FindFunc(key)
	if fn == nil {
		fmt.Fprintln(os.Stderr, "function not found:", key)
		return 3
	}
	for _, l := range prog.LoopTable(fn) {
		fmt.Println("  ", l)
	}
	vcs, err := prog.Generate(fn, sp)
	if err != nil {
		fmt.Fprintln(os.Stderr, "generate:", err)
		return 3
	}
	cfg := runCfg{timeout: time.Duration(*to) * time.Second, workDir: filepath.Join(verifDir, ".work", "fn")}
	os.MkdirAll(cfg.workDir, 0o755)
	var items []*oblResult
	for _, v := range vcs {
		for _, n := range v.Notes {
			fmt.Println("   note:", n)
		}
		for _, a := range v.Assumed {
			fmt.Println("   assumed:", a)
		}
		for _, o := range v.Obls {
			if *only != "" && !strings.Contains(o.Name, *only) {
				continue
			}
			items = append(items, &oblResult{Name: o.Name, Kind: o.Kind, Src: o.Src, Where: o.Where, vcx: v, obl: o})
		}
	}
	runObligations(cfg, items)
	bad := 0
	for _, it := range items {
		mark := "ok  "
		if !it.ok {
			mark = "FAIL"
			bad++
		}
		fmt.Printf("%s %-60s %-8s %-7s %6.2fs  %v  %s  @%s\n", mark, it.Name, it.Status, it.Solver, it.TimeS, it.obl.Props, trunc(it.Src, 70), it.Where)
		if !it.ok && it.File != "" {
			fmt.Println("       query:", it.File)
		}
		if *dump && it.ok {
			q := it.vcx.Query(it.obl, nil)
			os.WriteFile(filepath.Join(cfg.workDir, sanitizeFile(it.Name)+".smt2"), []byte(q), 0o644)
		}
	}
	fmt.Printf("%d obligations, %d failed\n", len(items), bad)
	if bad > 0 {
		return 1
	}
	return 0
}

func cmdLoops(args []string) int {
	if len(args) < 1 {
		usage()
	}
	key := args[0]
	pkg, name := key[:strings.Index(key, "::")], key[strings.Index(key, "::")+2:]
	if !strings.HasPrefix(pkg, modPath) {
		pkg = modPath + "/" + pkg
	}
	dir := strings.TrimPrefix(strings.TrimPrefix(pkg, modPath), "/")
	if dir == "" {
		dir = "."
	}
	prog, err := loadProg([]string{dir})
	if err != nil {
		fmt.Fprintln(os.Stderr, err)
		return 3
	}
	fn := prog.FindFunc(vc.Key(pkg, name))
	if fn == nil {
		fmt.Fprintln(os.Stderr, "function not found")
		return 3
	}
	for _, l := range prog.LoopTable(fn) {
		fmt.Println(l)
	}
	return 0
}

func cmdList(args []string) int {
	idx, err := scanContracts()
	if err != nil {
		fmt.Fprintln(os.Stderr, err)
		return 3
	}
	for _, e := range idx {
		for _, f := range e.cf.Funcs {
			fmt.Printf("%s::%s props=%v requires=%d ensures=%d loops=%d assumed=%v\n", e.pkg, f.Name, f.Props, len(f.Requires), len(f.Ensures), len(f.Loops), f.Assumed)
		}
	}
	return 0
}
