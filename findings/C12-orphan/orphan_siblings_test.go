package protocol

// Demonstration for the two C12 defects repaired by the "fix:" commit on OrphanManage:
//  1. Get dereferenced a nil *OrphanBlock for a hash that is not indexed (panic);
//  2. delete shifted the child list in place, so a caller iterating the slice returned by
//     GetPrevOrphans (saveSubBlock) skipped a sibling and then hit the stale tail entry.
// Fails (panics) before the fix, passes after it.

import (
	"testing"
	"time"

	"github.com/bytom/bytom/protocol/bc"
	"github.com/bytom/bytom/protocol/bc/types"
)

func TestGocvOrphanSiblings(t *testing.T) {
	parent := bc.Hash{V0: 1}
	o := NewOrphanManageWithData(map[bc.Hash]*OrphanBlock{}, map[bc.Hash][]*bc.Hash{})
	var blocks []*types.Block
	for i := uint64(0); i < 3; i++ {
		b := &types.Block{BlockHeader: types.BlockHeader{Height: 2, Timestamp: 100 + i, PreviousBlockHash: parent}}
		blocks = append(blocks, b)
		h := b.Hash()
		o.orphan[h] = &OrphanBlock{b, time.Now().Add(time.Hour)}
		o.prevOrphans[parent] = append(o.prevOrphans[parent], &h)
	}
	// what saveSubBlock does: walk the snapshot, connect (= delete) each child
	children, ok := o.GetPrevOrphans(&parent)
	if !ok || len(children) != 3 {
		t.Fatal("setup")
	}
	seen := 0
	for _, child := range children {
		blk, ok := o.Get(child) // panicked on the stale entry before the fix
		if !ok {
			continue
		}
		seen++
		h := blk.Hash()
		o.Delete(&h)
	}
	if seen != 3 {
		t.Fatalf("only %d of 3 sibling orphans were offered for connection", seen)
	}
	missing := bc.Hash{V0: 42}
	if blk, ok := o.Get(&missing); ok || blk != nil {
		t.Fatal("Get of an unknown hash must report a miss")
	}
}
