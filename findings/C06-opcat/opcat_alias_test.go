package vm

// Demonstration for the C06 defect repaired by the "fix:" commit on opCat / opCatpushdata:
// CAT appended in place into the spare capacity of its first operand, which can be shared
// with another stack item (DUP + LEFT keep the same backing array) or with the caller's buffer.
// Run with:  go test -overlay <overlay.json> -run TestGocvOpCatAlias ./protocol/vm
// Fails before the fix (other item becomes 01ff, caller buffer aabbffdd), passes after it.

import (
	"bytes"
	"testing"
)

func TestGocvOpCatAlias(t *testing.T) {
	// stack: [0102] DUP -> [0102 0102]; 1 LEFT -> [0102 01] (same backing array, cap 2); ff CAT -> [0102 01ff]
	vm := &virtualMachine{runLimit: 100000, context: &Context{}}
	item := []byte{1, 2}
	vm.dataStack = [][]byte{item, item[:1], {0xff}}
	if err := opCat(vm); err != nil {
		t.Fatal(err)
	}
	if !bytes.Equal(vm.dataStack[0], []byte{1, 2}) {
		t.Fatalf("CAT on one item changed another stack item: %x", vm.dataStack[0])
	}
	// caller-owned buffer with spare capacity
	buf := []byte{0xaa, 0xbb, 0xcc, 0xdd}
	vm2 := &virtualMachine{runLimit: 100000, context: &Context{}}
	vm2.dataStack = [][]byte{buf[:2], {0xff}}
	if err := opCat(vm2); err != nil {
		t.Fatal(err)
	}
	if !bytes.Equal(buf, []byte{0xaa, 0xbb, 0xcc, 0xdd}) {
		t.Fatalf("CAT wrote into the caller's buffer: %x", buf)
	}
}
