package database

import (
	"testing"

	dbm "github.com/bytom/bytom/database/leveldb"
	"github.com/bytom/bytom/protocol/bc"
	"github.com/bytom/bytom/protocol/bc/types"
	"github.com/bytom/bytom/protocol/state"
)

// Finding C21: Store.GetCheckpoint appended the header's sup links onto the checkpoint object
// held in the LRU cache, so every further read returned the links once more: repeated reads
// changed what later reads return, and the cached value differed from a fresh database read.
func TestFindingGetCheckpointRepeatedReads(t *testing.T) {
	store := NewStore(dbm.NewMemDB())
	header := &types.BlockHeader{Version: 1, Height: 100, Timestamp: 1000}
	header.SupLinks = types.SupLinks{&types.SupLink{SourceHeight: 0, SourceHash: bc.NewHash([32]byte{1})}}
	if err := store.SaveBlockHeader(header); err != nil {
		t.Fatal(err)
	}
	hash := header.Hash()
	cp := &state.Checkpoint{Height: 100, Hash: hash, Status: state.Unjustified, Rewards: map[string]uint64{}, Votes: map[string]uint64{}}
	if err := store.SaveCheckpoints([]*state.Checkpoint{cp}); err != nil {
		t.Fatal(err)
	}
	for i := 1; i <= 3; i++ {
		got, err := store.GetCheckpoint(&hash)
		if err != nil {
			t.Fatal(err)
		}
		if len(got.SupLinks) != 1 {
			t.Errorf("read %d: checkpoint has %d sup links, the database holds 1", i, len(got.SupLinks))
		}
	}
	fresh, err := NewStore(store.db).GetCheckpoint(&hash)
	if err != nil {
		t.Fatal(err)
	}
	if len(fresh.SupLinks) != 1 {
		t.Fatalf("fresh read has %d sup links", len(fresh.SupLinks))
	}
}
