package wallet

import (
	"testing"

	"github.com/bytom/bytom/consensus"
	"github.com/bytom/bytom/database/storage"
	"github.com/bytom/bytom/protocol/bc"
	"github.com/bytom/bytom/protocol/bc/types"
	"github.com/bytom/bytom/protocol/state"
)

// Finding C25 (known, recorded): a vote output created shortly before the height at which the
// configured vote lock length changes (mainnet: 14400 blocks below height 432000, 302400 above)
// is reported usable by the wallet at created + 14400, while consensus evaluates the lock length
// at the spending height and keeps the output locked until created + 302400.
func TestFindingVoteLockSwitch(t *testing.T) {
	saved := consensus.ActiveNetParams
	consensus.ActiveNetParams = consensus.MainNetParams
	defer func() { consensus.ActiveNetParams = saved }()

	const created = uint64(420000)
	vote := make([]byte, 64)
	tx := types.NewTx(types.TxData{
		Version: 1,
		Inputs:  []*types.TxInput{types.NewSpendInput(nil, bc.NewHash([32]byte{1}), *consensus.BTMAssetID, 100000000, 0, []byte{0x51}, nil)},
		Outputs: []*types.TxOutput{types.NewVoteOutput(*consensus.BTMAssetID, 100000000, []byte{0x51}, vote, nil)},
	})

	utxos := txOutToUtxos(tx, created)
	if len(utxos) != 1 {
		t.Fatalf("got %d utxos", len(utxos))
	}
	usableAt := utxos[0].ValidHeight // the wallet reports the output usable at every height >= ValidHeight
	t.Logf("created at %d, wallet ValidHeight %d", created, usableAt)

	// consensus: spend it in the block right after the wallet's maturity height
	view := state.NewUtxoViewpoint()
	view.Entries[utxos[0].OutputID] = storage.NewUtxoEntry(storage.VoteUTXOType, created, false)
	spendBlock := &bc.Block{BlockHeader: &bc.BlockHeader{Height: usableAt + 1}}
	spendTx := &bc.Tx{TxHeader: &bc.TxHeader{}, SpentOutputIDs: []bc.Hash{utxos[0].OutputID}}
	if err := view.ApplyTransaction(spendBlock, spendTx); err != nil {
		t.Errorf("wallet reports the vote output usable at height %d, consensus rejects spending it at height %d: %v", usableAt, usableAt+1, err)
	}
}
