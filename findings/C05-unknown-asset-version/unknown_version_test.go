package types

// Demonstration for C05 (decoding untrusted bytes never panics).
// Run:  cp this file to /repo/protocol/bc/types/ and `go test -run TestDecodeUnknownAssetVersion ./protocol/bc/types/`
// A transaction whose only input (or output) carries asset version 2 decodes without a
// typed input; Tx.UnmarshalText / Block.UnmarshalText then call MapTx, which panics.

import (
	"encoding/hex"
	"testing"
)

func decodeNoPanic(t *testing.T, name string, f func() error) {
	defer func() {
		if r := recover(); r != nil {
			t.Errorf("%s: decoder panicked: %v", name, r)
		}
	}()
	if err := f(); err == nil {
		t.Logf("%s: decoded without error", name)
	} else {
		t.Logf("%s: error %v", name, err)
	}
}

func TestDecodeUnknownAssetVersion(t *testing.T) {
	// serflags=7, version=1, timerange=0, 1 input {assetVersion=2, empty commitment, empty witness}, 0 outputs
	txIn := []byte{0x07, 0x01, 0x00, 0x01, 0x02, 0x00, 0x00, 0x00}
	// serflags=7, version=1, timerange=0, 0 inputs, 1 output {assetVersion=2, original output type, empty commitment, empty witness}
	txOut := []byte{0x07, 0x01, 0x00, 0x00, 0x01, 0x02, 0x00, 0x00, 0x00}
	for name, raw := range map[string][]byte{"input": txIn, "output": txOut} {
		text := []byte(hex.EncodeToString(raw))
		decodeNoPanic(t, "Tx/"+name, func() error { return new(Tx).UnmarshalText(text) })
	}
}
