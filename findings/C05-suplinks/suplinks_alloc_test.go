package types

// Demonstration for C05 (decoding allocates at most in proportion to the input).
// Run:  cp this file to /repo/protocol/bc/types/ and `go test -run TestSupLinksAllocation ./protocol/bc/types/`
// Before the fix: a 5-byte length prefix makes SupLinks.readFrom allocate size*8 bytes
// (here 1 GiB; with 0x7fffffff it is 16 GiB) before a single SupLink has been read.

import (
	"runtime"
	"testing"

	"github.com/bytom/bytom/encoding/blockchain"
)

func TestSupLinksAllocation(t *testing.T) {
	// varint31(1<<27) followed by nothing: a truncated list
	input := []byte{0x80, 0x80, 0x80, 0x40}
	var before, after runtime.MemStats
	runtime.ReadMemStats(&before)
	var s SupLinks
	err := s.readFrom(blockchain.NewReader(input))
	runtime.ReadMemStats(&after)
	if err == nil {
		t.Fatal("truncated list decoded without error")
	}
	got := after.TotalAlloc - before.TotalAlloc
	if got > 1<<20 {
		t.Fatalf("decoding %d bytes allocated %d bytes", len(input), got)
	}
}
