package authn

import (
	"net/http"
	"testing"

	"github.com/bytom/bytom/accesstoken"
	dbm "github.com/bytom/bytom/database/leveldb"
)

// Finding C36 (known, recorded): with authentication enabled a non-loopback request without any
// credentials is admitted when its path is /dashboard, /dashboard/..., /equity or /equity/...
// ("Temporary workaround. Dashboard is always ok." in Authenticate).  The property statement has
// no such exemption.
func TestFindingDashboardExemptFromAuthentication(t *testing.T) {
	api := NewAPI(accesstoken.NewStore(dbm.NewMemDB()), false)
	for _, path := range []string{"/dashboard/", "/dashboard", "/equity/", "/equity", "/dashboard/index.html"} {
		req, _ := http.NewRequest("GET", "http://node.example"+path, nil)
		req.RemoteAddr = "203.0.113.7:40000" // not a loopback address
		if _, err := api.Authenticate(req); err == nil {
			t.Errorf("non-loopback request to %s without credentials is admitted", path)
		}
	}
	// control: any other path is refused
	req, _ := http.NewRequest("GET", "http://node.example/list-balances", nil)
	req.RemoteAddr = "203.0.113.7:40000"
	if _, err := api.Authenticate(req); err == nil {
		t.Fatal("control: unauthenticated non-loopback request to /list-balances admitted")
	}
}
