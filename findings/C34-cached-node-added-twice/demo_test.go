package dht

import (
	"encoding/binary"
	"net"
	"testing"
)

// A node that waits in a bucket's replacement list and is then added while the bucket has room
// becomes an entry -- and stays on the replacement list (Table.add removes a node from the
// replacement list only in the "bucket full" branch).  The next deleteReplace of another member
// refills the bucket from the replacement list with that same node: the bucket holds it twice and
// the recorded count counts it twice.
//
//	fill bucket (16 nodes)      add(X) -> X goes to the replacement list
//	delete(member)              bucket has 15 entries (delete does not refill)
//	add(X)                      X becomes an entry, and is still on the replacement list
//	deleteReplace(other member) refill takes X from the replacement list: X is in the bucket twice
func findingNodes(tab *Table, dist, want int) []*Node {
	var out []*Node
	for ctr := uint32(1); len(out) < want; ctr++ {
		var id NodeID
		binary.BigEndian.PutUint32(id[:4], ctr)
		id[9] = 0x34
		n := NewNode(id, net.IPv4(10, 1, byte(ctr>>8), byte(ctr)), 30000+uint16(ctr), 30000+uint16(ctr))
		if n.ID != tab.self.ID && logdist(tab.self.sha, n.sha) == dist {
			out = append(out, n)
		}
	}
	return out
}

func TestFindingCachedNodeAddedTwice(t *testing.T) {
	var self NodeID
	self[0] = 0x34
	tab := newTable(self, &net.UDPAddr{IP: net.IPv4(127, 0, 0, 1), Port: 30303})

	const dist = 256
	nodes := findingNodes(tab, dist, bucketSize+1)
	members, x := nodes[:bucketSize], nodes[bucketSize]
	for _, n := range members {
		tab.add(n)
	}
	b := tab.buckets[dist]
	if len(b.entries) != bucketSize {
		t.Fatalf("setup: bucket holds %d entries", len(b.entries))
	}

	tab.add(x) // bucket full: x waits on the replacement list
	if len(b.replacements) != 1 || b.replacements[0].ID != x.ID {
		t.Fatalf("setup: x is not on the replacement list")
	}
	tab.delete(members[0]) // a member is dropped, no refill
	tab.add(x)             // room now: x becomes an entry
	for _, r := range b.replacements {
		if r.ID == x.ID {
			t.Errorf("x is an entry of the bucket and still on its replacement list")
		}
	}
	tab.deleteReplace(members[1]) // refill from the replacement list

	seen := map[NodeID]int{}
	for _, e := range b.entries {
		seen[e.ID]++
	}
	if seen[x.ID] != 1 {
		t.Errorf("the bucket holds node x %d times (entries: %d, recorded count: %d)", seen[x.ID], len(b.entries), tab.count)
	}
	if len(seen) != len(b.entries) {
		t.Errorf("bucket entries are not distinct: %d entries, %d different nodes", len(b.entries), len(seen))
	}
}

// the same through stuff (bulk insertion), which adds a node to a bucket with room as add does
func TestFindingCachedNodeStuffedTwice(t *testing.T) {
	var self NodeID
	self[0] = 0x35
	tab := newTable(self, &net.UDPAddr{IP: net.IPv4(127, 0, 0, 1), Port: 30303})

	const dist = 256
	nodes := findingNodes(tab, dist, bucketSize+1)
	members, x := nodes[:bucketSize], nodes[bucketSize]
	tab.stuff(members)
	b := tab.buckets[dist]
	tab.add(x)
	tab.delete(members[0])
	tab.stuff([]*Node{x})
	tab.deleteReplace(members[1])

	seen := map[NodeID]int{}
	for _, e := range b.entries {
		seen[e.ID]++
	}
	if seen[x.ID] != 1 {
		t.Errorf("the bucket holds node x %d times (entries: %d, recorded count: %d)", seen[x.ID], len(b.entries), tab.count)
	}
}
