package vm

import (
	"math/big"
	"testing"
)

// LSHIFT computes x << y modulo 2^256 (uint256.Lsh) and rejects the result only when bit 255 of what
// is left is set.  A shift that pushes bits beyond position 255 therefore loses them silently:
// 4 LSHIFT 254 is 2^256, far outside the number range (< 2^255), but the instruction succeeds and
// leaves 0; 5 LSHIFT 254 leaves 2^254 instead of failing.  Every other arithmetic opcode (ADD, MUL,
// 2MUL, 1ADD) fails with ErrRange when the exact result does not fit.
func TestFindingLshiftDropsHighBits(t *testing.T) {
	cases := []struct {
		x, y int64
	}{
		{4, 254},
		{5, 254},
		{6, 255},
		{1 << 40, 250},
	}
	for _, c := range cases {
		exact := new(big.Int).Lsh(big.NewInt(c.x), uint(c.y))
		limit := new(big.Int).Lsh(big.NewInt(1), 255)
		if exact.Cmp(limit) < 0 {
			t.Fatalf("bad case %d << %d fits", c.x, c.y)
		}

		vm := &virtualMachine{
			runLimit:  50000,
			dataStack: [][]byte{Uint64Bytes(uint64(c.x)), Uint64Bytes(uint64(c.y))},
		}
		err := opLshift(vm)
		if err == nil {
			got, _ := AsBigInt(vm.dataStack[len(vm.dataStack)-1])
			t.Errorf("%d LSHIFT %d: exact result %s does not fit below 2^255, but the opcode succeeded and left %s", c.x, c.y, exact.String(), got.ToBig().String())
		}
	}
}
