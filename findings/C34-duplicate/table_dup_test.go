package dht

// Demonstration for C34 (each bucket holds at most sixteen DISTINCT nodes; count equals the entries).
// Run:  cp this file to /repo/p2p/discover/dht/ and `go test -run TestTableDuplicateAfterReplace ./p2p/discover/dht/`
// A node parked in a bucket's replacement cache stays there when it is later added to the bucket
// itself; deleteReplace then promotes it a second time.

import (
	"net"
	"testing"
)

func TestTableDuplicateAfterReplace(t *testing.T) {
	var selfID NodeID
	selfID[0] = 1
	tab := newTable(selfID, &net.UDPAddr{IP: net.IP{127, 0, 0, 1}, Port: 1})
	// 17 nodes in the farthest bucket
	var nodes []*Node
	for i := 0; len(nodes) < 17; i++ {
		var id NodeID
		id[0], id[1], id[2] = 2, byte(i), byte(i>>8)
		n := NewNode(id, net.IP{10, 0, byte(i >> 8), byte(i)}, 30303, 30303)
		if logdist(tab.self.sha, n.sha) == hashBits {
			nodes = append(nodes, n)
		}
	}
	for _, n := range nodes[:16] {
		tab.add(n)
	}
	tab.add(nodes[16])    // bucket full: parked in the replacement cache
	tab.delete(nodes[0])  // room again
	tab.add(nodes[16])    // now a regular entry, but still parked
	tab.deleteReplace(nodes[1]) // promotes the parked copy
	b := tab.buckets[hashBits]
	seen := map[NodeID]int{}
	total := 0
	for _, bk := range tab.buckets {
		total += len(bk.entries)
	}
	for _, e := range b.entries {
		seen[e.ID]++
		if seen[e.ID] > 1 {
			t.Errorf("node %x.. appears %d times in one bucket", e.ID[:3], seen[e.ID])
		}
	}
	if total != tab.count {
		t.Errorf("count %d, entries %d", tab.count, total)
	}
	if len(seen) != len(b.entries) {
		t.Errorf("bucket has %d entries but only %d distinct nodes", len(b.entries), len(seen))
	}
}
