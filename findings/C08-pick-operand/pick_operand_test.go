package vm

import "testing"

// Finding C08 (known, recorded): PICK and ROLL read their operand with int64(n.Uint64()), i.e.
// only the low 64 bits of the 256-bit number, reinterpreted as signed.
//   - an operand whose low word has bit 63 set (e.g. 2^63) gives a zero or negative offset and
//     opPick indexes the stack out of range: a run-time panic inside the opcode (recovered by
//     vm.Verify, so the program fails with ErrUnexpected instead of ErrBadValue);
//   - an operand >= 2^64 is silently taken modulo 2^64: PICK (2^64 + 1) behaves as PICK 1.
func TestFindingPickOperand(t *testing.T) {
	// 2^63 as a little-endian number: eight bytes, top bit of the last byte set
	n63 := []byte{0, 0, 0, 0, 0, 0, 0, 0x80}
	func() {
		defer func() {
			if r := recover(); r != nil {
				t.Errorf("PICK with operand 2^63 panics inside the opcode: %v", r)
			}
		}()
		vm := &virtualMachine{runLimit: 50000, dataStack: [][]byte{{1}, {2}, {3}, n63}}
		if err := opPick(vm); err == nil {
			t.Errorf("PICK with operand 2^63 succeeds")
		}
	}()

	// 2^64 + 1: nine bytes
	big := []byte{1, 0, 0, 0, 0, 0, 0, 0, 1}
	vm := &virtualMachine{runLimit: 50000, dataStack: [][]byte{{1}, {2}, {3}, big}}
	if err := opPick(vm); err == nil {
		t.Errorf("PICK with operand 2^64+1 succeeds and returns item %v (as if the operand were 1)", vm.dataStack[len(vm.dataStack)-1])
	}
	vm = &virtualMachine{runLimit: 50000, dataStack: [][]byte{{1}, {2}, {3}, big}}
	if err := opRoll(vm); err == nil {
		t.Errorf("ROLL with operand 2^64+1 succeeds (as if the operand were 1): stack %v", vm.dataStack)
	}
}
