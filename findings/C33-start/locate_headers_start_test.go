package chainmgr

// Demonstration for the C33 known finding (recorded, not repaired): the response starts at
// the FIRST locator entry that is on the main chain, not at the highest one, when the peer's
// locator is not sorted by descending height.  This test FAILS on the current tree by design.

import (
	"testing"

	"github.com/bytom/bytom/protocol/bc"
	"github.com/bytom/bytom/test/mock"
)

func TestGocvLocateHeadersUnsortedLocator(t *testing.T) {
	blocks := mockBlocks(nil, 50)
	mockChain := mock.NewChain()
	bk := &blockKeeper{chain: mockChain}
	for i := uint64(0); i <= 50; i++ {
		mockChain.SetBlockByHeight(i, blocks[i])
	}
	h3, h9 := blocks[3].Hash(), blocks[9].Hash()
	stop := blocks[40].Hash()
	got, err := bk.locateHeaders([]*bc.Hash{&h3, &h9}, &stop, 0, 20)
	if err != nil {
		t.Fatal(err)
	}
	if got[0].Height != 9 {
		t.Fatalf("response starts at height %d, the highest main-chain locator entry is 9", got[0].Height)
	}
}
