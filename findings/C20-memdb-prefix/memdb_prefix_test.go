package leveldb

// Demonstration for the C20 defect repaired by the "fix:" commit on MemDB.IteratorPrefixWithStart:
// the in-memory backend ignored the Prefix argument (keys a1 a2 b1, prefix "a", start "a1" also
// yielded b1), whereas the LevelDB backend restricts the iteration with util.BytesPrefix(Prefix).
// Fails before the fix, passes after it.

import "testing"

func TestGocvMemDBIteratorPrefixWithStart(t *testing.T) {
	db := NewMemDB()
	for _, k := range []string{"a1", "a2", "b1"} {
		db.Set([]byte(k), []byte("v"))
	}
	it := db.IteratorPrefixWithStart([]byte("a"), []byte("a1"), false)
	var got []string
	for it.Next() {
		got = append(got, string(it.Key()))
	}
	for _, k := range got {
		if k[0] != 'a' {
			t.Fatalf("iteration over prefix %q yielded %v", "a", got)
		}
	}
}
