package casper

import (
	"fmt"
	"testing"

	"github.com/bytom/bytom/crypto/ed25519/chainkd"
	"github.com/bytom/bytom/database/storage"
	"github.com/bytom/bytom/errors"
	"github.com/bytom/bytom/event"
	"github.com/bytom/bytom/protocol/bc"
	"github.com/bytom/bytom/protocol/bc/types"
	"github.com/bytom/bytom/protocol/state"
)

// findingStore is a minimal in-memory state.Store over a fixed list of checkpoints.
type findingStore struct {
	checkpoints []*state.Checkpoint
}

func (s *findingStore) GetCheckpoint(hash *bc.Hash) (*state.Checkpoint, error) {
	for _, c := range s.checkpoints {
		if c.Hash == *hash {
			return c, nil
		}
	}
	return nil, errors.New("fail to get checkpoint")
}

func (s *findingStore) GetCheckpointsByHeight(height uint64) ([]*state.Checkpoint, error) {
	var result []*state.Checkpoint
	for _, c := range s.checkpoints {
		if c.Height == height {
			result = append(result, c)
		}
	}
	return result, nil
}

func (s *findingStore) SaveCheckpoints([]*state.Checkpoint) error { return nil }
func (s *findingStore) CheckpointsFromNode(uint64, *bc.Hash) ([]*state.Checkpoint, error) {
	return nil, nil
}
func (s *findingStore) BlockExist(*bc.Hash) bool                                 { return false }
func (s *findingStore) GetBlock(*bc.Hash) (*types.Block, error)                  { return nil, nil }
func (s *findingStore) GetStoreStatus() *state.BlockStoreState                   { return nil }
func (s *findingStore) GetTransactionsUtxo(*state.UtxoViewpoint, []*bc.Tx) error { return nil }
func (s *findingStore) GetUtxo(*bc.Hash) (*storage.UtxoEntry, error)             { return nil, nil }
func (s *findingStore) GetMainChainHash(uint64) (*bc.Hash, error)                { return nil, nil }
func (s *findingStore) GetContract([32]byte) ([]byte, error)                     { return nil, nil }
func (s *findingStore) SaveBlock(*types.Block) error                             { return nil }
func (s *findingStore) SaveBlockHeader(*types.BlockHeader) error                 { return nil }
func (s *findingStore) GetBlockHeader(*bc.Hash) (*types.BlockHeader, error) {
	return &types.BlockHeader{}, nil
}
func (s *findingStore) SaveChainStatus(*types.BlockHeader, []*types.BlockHeader, *state.UtxoViewpoint, *state.ContractViewpoint, uint64, *bc.Hash) error {
	return nil
}

func findingKey(seed string) (chainkd.XPrv, string) {
	xPrv := chainkd.RootXPrv([]byte(seed))
	return xPrv, xPrv.XPub().String()
}

func findingVote(t *testing.T, c *Casper, xPrv chainkd.XPrv, pub string, source, target *state.Checkpoint) error {
	t.Helper()
	v := &verification{
		SourceHash:   source.Hash,
		TargetHash:   target.Hash,
		SourceHeight: source.Height,
		TargetHeight: target.Height,
		PubKey:       pub,
	}
	if err := v.Sign(xPrv); err != nil {
		t.Fatal(err)
	}

	return c.AuthVerification(&ValidCasperSignMsg{
		SourceHash: v.SourceHash,
		TargetHash: v.TargetHash,
		PubKey:     v.PubKey,
		Signature:  v.Signature,
	})
}

// Finding C17 (known, recorded): a checkpoint is justified through a supermajority link whose SOURCE
// is not justified.  addVerificationToCheckpoint only skips sources that are Finalized; it never
// requires source.Status to be Justified (or Finalized), although the property statement and the
// comment on AuthVerification both say the source must be justified.
//
//	G(0, finalized root) -> A(100, UNJUSTIFIED) -> B(200, unjustified), 7 validators
//
// Five of seven validators sign A -> B.  A has never been justified, so B must stay unjustified.
func TestFindingUnjustifiedSourceJustifiesTarget(t *testing.T) {
	var prvs []chainkd.XPrv
	var pubs []string
	votes := map[string]uint64{}
	for i := 0; i < 7; i++ {
		prv, pub := findingKey(fmt.Sprintf("finding-validator-%d", i))
		prvs = append(prvs, prv)
		pubs = append(pubs, pub)
		votes[pub] = uint64(7-i) * 1e14
	}
	copyVotes := func() map[string]uint64 {
		result := map[string]uint64{}
		for k, v := range votes {
			result[k] = v
		}
		return result
	}
	g := &state.Checkpoint{Height: 0, Hash: bc.NewHash([32]byte{0x01}), Status: state.Finalized, Votes: copyVotes()}
	a := &state.Checkpoint{Height: 100, Hash: bc.NewHash([32]byte{0x02}), ParentHash: g.Hash, Status: state.Unjustified, Votes: copyVotes()}
	b := &state.Checkpoint{Height: 200, Hash: bc.NewHash([32]byte{0x03}), ParentHash: a.Hash, Status: state.Unjustified, Votes: copyVotes()}
	all := []*state.Checkpoint{g, a, b}
	c := NewCasper(&findingStore{checkpoints: all}, event.NewDispatcher(), all)
	go func() {
		for msg := range c.rollbackCh {
			msg.Reply <- nil
		}
	}()
	for i := 0; i < 5; i++ {
		if err := findingVote(t, c, prvs[i], pubs[i], a, b); err != nil {
			t.Fatalf("vote of validator %d: %v", i, err)
		}
	}
	if a.Status != state.Unjustified {
		t.Logf("source checkpoint A (never justified) now has status %d", a.Status)
	}
	if b.Status == state.Justified {
		t.Errorf("checkpoint B at height 200 became justified through a link from A, which was never justified (A.Status=%d)", a.Status)
	}
}
