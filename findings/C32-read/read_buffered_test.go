package connection

// Demonstration for the C32 defect repaired by the "fix:" commit on SecretConnection.Read:
// when bytes of a previous frame are still buffered, Read copied them into the caller's
// buffer but returned n == 0 (the count went into a shadow variable n_), so the caller
// dropped them.  Fails before the fix, passes after it.

import (
	"bytes"
	"testing"
)

func TestGocvReadBuffered(t *testing.T) {
	sc := &SecretConnection{recvBuffer: []byte("hello")}
	buf := make([]byte, 3)
	n, err := sc.Read(buf)
	if err != nil {
		t.Fatal(err)
	}
	if n != 3 || !bytes.Equal(buf[:n], []byte("hel")) {
		t.Fatalf("Read returned n=%d data=%q, want 3 %q", n, buf[:n], "hel")
	}
	if string(sc.recvBuffer) != "lo" {
		t.Fatalf("remaining buffer %q, want %q", sc.recvBuffer, "lo")
	}
}
