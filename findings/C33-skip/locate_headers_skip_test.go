package chainmgr

// Demonstration for the C33 defect repaired by the "fix:" commit on locateHeaders:
// `index += skip + 1` wrapped around uint64 for huge peer-supplied skip values, so the
// response repeated the same header (skip = 2^64-1) or went backwards instead of stopping
// at the stop block.  Fails before the fix, passes after it.

import (
	"testing"

	"github.com/bytom/bytom/protocol/bc"
	"github.com/bytom/bytom/test/mock"
)

func TestGocvLocateHeadersSkipOverflow(t *testing.T) {
	blocks := mockBlocks(nil, 50)
	mockChain := mock.NewChain()
	bk := &blockKeeper{chain: mockChain}
	for i := uint64(0); i <= 50; i++ {
		mockChain.SetBlockByHeight(i, blocks[i])
	}
	start := blocks[5].Hash()
	stop := blocks[40].Hash()
	for _, skip := range []uint64{^uint64(0), ^uint64(0) - 3} {
		got, err := bk.locateHeaders([]*bc.Hash{&start}, &stop, skip, 20)
		if err != nil {
			t.Fatal(err)
		}
		for i := 1; i < len(got); i++ {
			if got[i-1].Height >= got[i].Height {
				t.Fatalf("skip=%d: heights not strictly increasing at %d: %d then %d (len %d)", skip, i, got[i-1].Height, got[i].Height, len(got))
			}
		}
		if got[len(got)-1].Height > 40 {
			t.Fatalf("skip=%d: response passes the stop block", skip)
		}
	}
}
