package protocol

// Demonstration for the C22 defect repaired by the "fix:" commit on TxPool.checkOrphanUtxos:
// the function returned &hash of the range variable (one variable for the whole loop under the
// module's go 1.16 semantics), so for a transaction waiting for two missing outputs X and Y it
// reported [&Y, &Y] (the same pointer twice) and the orphan was indexed under Y only: the
// arrival of X's transaction never promoted it.  Fails before the fix, passes after it.

import (
	"testing"

	"github.com/bytom/bytom/database/storage"
	"github.com/bytom/bytom/protocol/bc"
	"github.com/bytom/bytom/protocol/bc/types"
	"github.com/bytom/bytom/protocol/state"
)

type gocvEmptyStore struct{ state.Store }

func (gocvEmptyStore) GetTransactionsUtxo(view *state.UtxoViewpoint, txs []*bc.Tx) error {
	_ = storage.UtxoEntry{}
	return nil // nothing is stored: every spent output is missing
}

func TestGocvCheckOrphanUtxosDistinct(t *testing.T) {
	tp := &TxPool{store: gocvEmptyStore{}, utxo: map[bc.Hash]*types.Tx{}}
	x, y := bc.Hash{V0: 1}, bc.Hash{V0: 2}
	tx := &types.Tx{Tx: &bc.Tx{SpentOutputIDs: []bc.Hash{x, y}}}
	got, err := tp.checkOrphanUtxos(tx)
	if err != nil {
		t.Fatal(err)
	}
	if len(got) != 2 {
		t.Fatalf("want 2 missing parents, got %d", len(got))
	}
	if got[0] == got[1] || *got[0] != x || *got[1] != y {
		t.Fatalf("required parents reported as [%v %v] (same pointer: %v), want [%v %v]", got[0].String(), got[1].String(), got[0] == got[1], x.String(), y.String())
	}
}
