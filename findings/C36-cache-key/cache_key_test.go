package authn

import (
	"context"
	"strings"
	"testing"

	"github.com/bytom/bytom/accesstoken"
	dbm "github.com/bytom/bytom/database/leveldb"
)

// Finding C36: the token cache key was user+pw.  After the issued pair ("ab", secret) has been
// checked once, the different pair ("a", "b"+secret) maps to the same key and is admitted from the
// cache for five minutes although it is not an issued token's id and secret.
func TestFindingCacheKeyConcatenation(t *testing.T) {
	store := accesstoken.NewStore(dbm.NewMemDB())
	token, err := store.Create("ab", "client")
	if err != nil {
		t.Fatal(err)
	}
	secret := strings.Split(token.Token, ":")[1]
	api := NewAPI(store, false)
	if err := api.cachedTokenAuthnCheck(context.Background(), "ab", secret); err != nil {
		t.Fatalf("issued pair refused: %v", err)
	}
	// not an issued pair: there is no token with id "a"
	if err := store.Check("a", "b"+secret); err == nil {
		t.Fatal("store accepts the shifted pair")
	}
	if err := api.cachedTokenAuthnCheck(context.Background(), "a", "b"+secret); err == nil {
		t.Errorf("pair (\"a\", \"b\"+secret) admitted from the cache although it is not an issued id/secret pair")
	}
}
