#!/bin/bash
# Must-pass / must-fail regression for the engine: every claimed check must exit 0 on the unchanged
# tree, and every seeded change recorded as "caught" must make its property's check exit 1.
# Run after every engine or contract change.  Usage: tools/selftest.sh [PROP ...]
cd /verif || exit 2
props=${@:-$(python3 -c "import json;print(' '.join(c['property_id'] for c in json.load(open('MANIFEST.json'))['checks']))")}
fail=0
for p in $props; do
  out=$(bin/gocv check $p 2>&1); rc=$?
  echo "clean $p: exit=$rc $(echo "$out" | grep '^gocv:' | cut -c1-140)"
  if [ $rc -ne 0 ]; then fail=1; echo "$out" | grep VIOLATION | head -5; fi
done
# evidence files describe the unchanged tree: keep them out of the seeded runs
tmpev=$(mktemp -d /tmp/gocv_ev.XXXXXX); cp -a /verif/evidence/. $tmpev/
trap 'cp -a $tmpev/. /verif/evidence/; rm -rf $tmpev' EXIT
for d in seeded/*/; do
  pid=$(python3 -c "import json;print(json.load(open('$d/meta.json'))['property'])")
  det=$(python3 -c "import json;print(json.load(open('$d/meta.json'))['detection'])")
  case " $props " in *" $pid "*) ;; *) continue;; esac
  (cd /repo && git diff --quiet) || { echo "repo dirty"; exit 2; }
  (cd /repo && git apply /verif/$d/patch.diff) || { echo "seed $d does not apply"; fail=1; continue; }
  out=$(bin/gocv check $pid 2>&1); rc=$?
  (cd /repo && git checkout -- .)
  echo "seed $(basename $d): expected=$det exit=$rc $(echo "$out" | grep -c '^VIOLATION') violation line(s)"
  if [ "$det" = caught ] && [ $rc -ne 1 ]; then fail=1; echo "  MISSED a seed recorded as caught"; fi
  if [ "$det" = missed ] && [ $rc -eq 1 ]; then echo "  now caught: update meta.json"; fi
done
exit $fail
