#!/bin/bash
# usage: tools/confirm_seed.sh <worktree> <outdir> <pkgdir> <testname-regex>
# Confirms a seeded change in a scratch worktree: with the patch the package's own tests pass and
# the demonstration fails; without it the demonstration passes.
set -u
wt=$1; out=$2; pkg=$3; re=$4
export GOFLAGS=-mod=mod GOPROXY=off GOSUMDB=off GOTOOLCHAIN=local
cd $wt || exit 2
git checkout -q -- . ; rm -f $pkg/zz_demo_test.go
git apply $out/patch.diff || { echo "APPLY-FAIL"; exit 2; }
go build ./$pkg/ 2>&1 | tail -2
existing=$(go test -count=1 ./$pkg/ 2>&1 | tail -1)
cp $out/demo_test.go $pkg/zz_demo_test.go
withp=$(go test -count=1 -run "$re" ./$pkg/ 2>&1 | grep -E "^(ok|FAIL|---|panic)" | head -3 | tr '\n' ' ')
git checkout -q -- . 
without=$(go test -count=1 -run "$re" ./$pkg/ 2>&1 | grep -E "^(ok|FAIL|---|panic)" | head -3 | tr '\n' ' ')
rm -f $pkg/zz_demo_test.go
echo "existing-tests-with-patch: $existing"
echo "demo-with-patch:    $withp"
echo "demo-without-patch: $without"
