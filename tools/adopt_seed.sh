#!/bin/bash
# usage: tools/adopt_seed.sh <PROP> <n> <pkgdir-of-demo> <seed-name> 
# Confirms an agent-written seeded change (/tmp/seedout/<PROP>/<n>) in the scratch worktree /tmp/wt-<PROP>
# and stores it as /verif/seeded/<PROP>-<seed-name>/ (patch.diff, demo_test.go, notes.txt, confirm.txt).
set -u
prop=$1; n=$2; pkg=$3; name=$4
src=${SEEDOUT:-/tmp/seedout}/$prop/$n; wt=${WTPFX:-/tmp/wt-}$prop; dst=/verif/seeded/$prop-$name
[ -f $src/patch.diff ] || { echo "no patch in $src"; exit 2; }
out=$(/verif/tools/confirm_seed.sh $wt $src $pkg TestSeedDemo 2>&1)
echo "$out"
echo "$out" | grep -q "existing-tests-with-patch: ok" || { echo "NOT-CONFIRMED (existing tests)"; }
echo "$out" | grep "demo-with-patch:" | grep -q "FAIL" || { echo "NOT-CONFIRMED (demo does not fail with patch)"; exit 1; }
echo "$out" | grep "demo-without-patch:" | grep -q "^demo-without-patch: ok" || { echo "NOT-CONFIRMED (demo does not pass without patch)"; exit 1; }
mkdir -p $dst; cp $src/patch.diff $src/demo_test.go $src/notes.txt $dst/; echo "$out" > $dst/confirm.txt
echo "adopted $dst"
