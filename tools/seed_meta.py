#!/usr/bin/env python3
"""For every /verif/seeded/<dir> that has notes.txt (agent-written seed) run the property's quick
check with the seed applied to /repo (tools/try_mutant.sh) and write/refresh meta.json."""
import json, os, re, subprocess, sys
root = '/verif/seeded'
only = sys.argv[1:]
for d in sorted(os.listdir(root)):
    p = os.path.join(root, d)
    if not os.path.exists(os.path.join(p, 'notes.txt')):
        continue
    if only and not any(d.startswith(o) for o in only):
        continue
    prop = d.split('-')[0]
    out = subprocess.run(['/verif/tools/try_mutant.sh', os.path.join(p, 'patch.diff'), prop], capture_output=True, text=True).stdout
    viol = [m or 'contract no longer matches the code (VC generation failed)' for m in re.findall(r'^VIOLATION [^\n]*?(?:obligation=(\S+))?(?: no-failing-input-found)?$', out, re.M)]
    summ = re.findall(r'^gocv: .*', out, re.M)
    notes = open(os.path.join(p, 'notes.txt')).read()
    meta_p = os.path.join(p, 'meta.json')
    meta = json.load(open(meta_p)) if os.path.exists(meta_p) else {}
    meta.update({
        'property': prop,
        'what': meta.get('what') or notes.strip().split('\n\n')[0][:1500],
        'needs_to_manifest': meta.get('needs_to_manifest', 'see notes.txt'),
        'origin': 'written by an independent sub-agent that saw only the property text and a scratch worktree of /repo without the contract files',
        'confirmed': 'tools/adopt_seed.sh (confirm_seed.sh) in the scratch worktree: with the patch the touched package\'s own tests pass and the demonstration fails; without it the demonstration passes (confirm.txt)',
        'demo': 'demo_test.go (see notes.txt for the package directory and the go test command)',
        'detection': 'caught' if viol else 'missed',
        'detected_by_or_reason': ('failed obligations: ' + ', '.join(sorted(set(viol)))) if viol else meta.get('detected_by_or_reason', 'no obligation of the current contracts fails (see DESIGN.md §12.4)'),
        'check_summary': summ[-1] if summ else out[-300:],
        'how_to_run': 'tools/try_mutant.sh /verif/seeded/%s/patch.diff %s' % (d, prop),
    })
    json.dump(meta, open(meta_p, 'w'), indent=1)
    print(d, meta['detection'], len(viol))
