#!/usr/bin/env python3
"""Regenerates /verif/MANIFEST.json from tools/claims.json (single source of truth
for what is claimed and what is not applicable) and validates it."""
import json, os, subprocess, sys

here = os.path.dirname(os.path.abspath(__file__))
root = os.path.dirname(here)
claims = json.load(open(os.path.join(here, "claims.json")))
props = [json.loads(l) for l in open(os.path.join(root, "properties.jsonl"))]
ids = [p["id"] for p in props]

hook_commits = []
try:
    out = subprocess.run(["git", "-C", "/repo", "log", "--format=%H %s"], capture_output=True, text=True).stdout
    for line in out.splitlines():
        h, _, subj = line.partition(" ")
        if subj.startswith("verif:"):
            hook_commits.append(h)
except Exception:
    pass

checks = []
na = []
for pid in ids:
    c = claims["claimed"].get(pid)
    if c:
        checks.append({
            "property_id": pid,
            "quick_cmd": f"bin/gocv check {pid} --tier quick",
            "thorough_cmd": f"bin/gocv check {pid} --tier thorough",
            "evidence_file": f"evidence/{pid}.json",
            "replay_cmd_template": "bin/gocv replay {path}",
            "engine": "gocv",
            "level_claimed": {"category": c.get("category", "proof"), "text": c["text"], "design_ref": c.get("design_ref", "DESIGN.md §8 " + pid)},
            "level_note": c["note"],
            "technique": c.get("technique", "contract-based deductive verification: weakest-precondition VCs generated from go/ssa of the real functions, contracts in zz_contracts_verif.go, discharged by z3/cvc5"),
        })
    else:
        reason = claims["not_applicable"].get(pid)
        if not reason:
            print("property", pid, "neither claimed nor not_applicable", file=sys.stderr)
            sys.exit(1)
        na.append({"property_id": pid, "reason": reason})

manifest = {
    "version": 1,
    "setup_cmd": "cd engine && GOFLAGS=-mod=vendor GOTOOLCHAIN=local GOPROXY=off go build -o ../bin/gocv ./cmd/gocv",
    "hooks": {
        "guard": "verif",
        "enable": "go build tag `verif` (-tags verif): the only hook files are the contract files zz_contracts_verif.go, one per package under contract: //@ comment lines read by gocv and, compiled only under the tag, ghost declarations used only by contracts (two ghost variables in database/ (the key sets of the checkpoint and header LRU caches), one lemma function in protocol/state/ that no production code calls); without the tag the files do not exist for the compiler",
        "baseline_off_cmd": "for m in $(cat /w/out/gomods.txt); do MF=$(cd /repo/$m && . /w/out/goenv.sh && gomodflag); (cd /repo/$m && go test $MF -json -vet=off -count=1 -timeout 25m ./...); done",
        "source_commits": hook_commits,
        "add_only": True,
    },
    "engines": [{
        "name": "gocv", "path": "engine",
        "serves_properties": [c["property_id"] for c in checks],
        "kind_free_text": "own deductive verifier for Go: go/packages+go/ssa of /repo's working tree -> per-function VCs (requires/ensures/modifies/loop invariants/variants/safety) -> SMT-LIB -> z3-new | cvc5 | z3 portfolio; sat models replayed on the real code with go test -overlay",
    }],
    "checks": checks,
    "not_applicable": na,
    "notes": claims.get("notes", ""),
}
json.dump(manifest, open(os.path.join(root, "MANIFEST.json"), "w"), indent=1)
try:
    import jsonschema
    jsonschema.validate(manifest, json.load(open("/root/.vp/MANIFEST.schema.json")))
    print("MANIFEST.json valid:", len(checks), "checks,", len(na), "not applicable")
except ImportError:
    print("jsonschema not available; written without validation")
