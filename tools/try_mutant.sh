#!/bin/bash
# usage: tools/try_mutant.sh <patch.diff> <PROP> [more props...]
# Applies a seeded change to /repo, runs the registered quick checks, and always reverts.
set -u
patch=$1; shift
cd /repo || exit 2
if ! git diff --quiet; then echo "repo has uncommitted changes; refusing"; exit 2; fi
git apply "$patch" || { echo "patch does not apply"; exit 2; }
# evidence files describe the unchanged tree: keep them out of mutant runs
tmpev=$(mktemp -d /tmp/gocv_ev.XXXXXX); cp -a /verif/evidence/. $tmpev/
trap 'git -C /repo checkout -- . ; cp -a $tmpev/. /verif/evidence/; rm -rf $tmpev' EXIT
for p in "$@"; do
  echo "=== check $p with $(basename $(dirname $patch))/$(basename $patch)"
  (cd /verif && bin/gocv check "$p" 2>&1 | grep -E "^VIOLATION|^KNOWN|^gocv:" | cut -c1-260)
  echo "exit=$?"
done
